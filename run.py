#!/venv/bin/python
"""CLI:  run.py CNN --tier quick|thorough [--replay file]   (exit 0 held / 1 violation / 2 harness error)."""
from __future__ import annotations

import argparse
import importlib
import json
import os
import sys
import time

HERE = os.path.dirname(os.path.abspath(__file__))
sys.path.insert(0, HERE)

if os.environ.get("PYTHONHASHSEED") != "0":
    os.environ["PYTHONHASHSEED"] = "0"
    os.execv(sys.executable, [sys.executable] + sys.argv)


def main() -> int:
    ap = argparse.ArgumentParser()
    ap.add_argument("prop")
    ap.add_argument("--tier", default=os.environ.get("VERIF_TIER", "quick"), choices=["quick", "thorough"])
    ap.add_argument("--replay")
    ap.add_argument("--budget", type=float, default=None, help="wall-clock cap in seconds (reported when hit)")
    args = ap.parse_args()
    if args.prop == "--selftest" or args.prop == "selftest":
        from mc import selftest  # noqa: PLC0415

        return selftest.main()

    seed = int(os.environ.get("VERIF_SEED", "0") or 0)
    from mc import loader  # noqa: PLC0415
    from mc.report import Ctx  # noqa: PLC0415

    loader.load()
    mod = importlib.import_module(f"checks.{args.prop.lower()}")
    ctx = Ctx(args.prop.upper(), args.tier, seed, mod.LEVEL, replaying=bool(args.replay))
    budget = args.budget if args.budget is not None else getattr(mod, "BUDGET", {}).get(args.tier)
    if budget:
        ctx.deadline = time.time() + budget
    # hard watchdog: a check must never hang (e.g. a spin loop the runtime does not see); exit 2 = harness error, no VIOLATION line
    import signal  # noqa: PLC0415

    def _watchdog(_sig, _frm):
        print(f"HARNESS-ERROR property={args.prop.upper()} watchdog: no result after {hard}s", file=sys.stderr, flush=True)
        try:
            from mc import explore  # noqa: PLC0415

            explore.close_pool()
        finally:
            os._exit(2)

    hard = int((budget or 600) * 2 + 120)
    signal.signal(signal.SIGALRM, _watchdog)
    signal.alarm(hard)
    if args.replay:
        with open(args.replay) as f:
            rep = json.load(f)
        mod.replay(ctx, rep["detail"])
    else:
        mod.run(ctx)
    return ctx.finish()


if __name__ == "__main__":
    sys.exit(main())
