"""C17 - the SECS-I line protocol delivers accepted messages intact, once; bad blocks are NAKed.

Shape S: two real SecsIProtocol objects (host, equipment) joined by an in-memory line; one side sends a
message of 1-3 blocks, then the other side answers; the line bytes are delivered in explorer-chosen chunks
(<= C cuts, plus all-single-bytes), optionally with one corrupted byte at every position of a block, under
every schedule with <= K delays at line granularity.  Oracle: transcript grammar (ENQ -> EOT -> block ->
ACK|NAK)*, success => delivered exactly once with identical header and body, corrupted block => NAK, not
delivered, sender reports failure; nothing hangs.
"""
from __future__ import annotations

from mc import explore, loader, vrt

loader.install_shims()
from mc import env  # noqa: E402
from ref import e4  # noqa: E402

import secsgem.common  # noqa: E402
import secsgem.secsi  # noqa: E402
import secsgem.secsi.message as _sm  # noqa: E402

vrt.trace_spin_loops(vrt.SPIN_MODULES)

LEVEL = "model_checking"
BUDGET = {"quick": 420, "thorough": 3000}

REGION = [
    "secsgem.secsi.protocol:SecsIProtocol._process_send_queue",
    "secsgem.secsi.protocol:SecsIProtocol._process_received_data",
    "secsgem.common.protocol:Protocol._on_connection_data_received",
    "secsgem.common.protocol:Protocol._process_data",
    "secsgem.common.protocol:Protocol.send_message",
    "secsgem.common.byte_queue:ByteQueue.*",
    "secsgem.common.protocol_dispatcher:ProtocolDispatcher.*",
    "secsgem.common.block_send_info:BlockSendInfo.*",
    "secsgem.common.protocol:Protocol.get_next_system_counter",
]


def secsi_settings(device_type):
    class LoopSecsISettings(secsgem.secsi.SecsISettings):
        def create_connection(self):
            self.loop = env.LoopConnection(self)
            return self.loop

    return LoopSecsISettings(port="VIRT", device_type=device_type)


def body_of(n, salt):
    return bytes(((i * 11 + salt) & 0xFF) for i in range(n))


def run_one(devs, budgets, blocks=1, direction="h2e", corrupt=None, all_bytes=False, chunk_menu=True, second=True, traced=True, paced=False,
            tail=19, twin=False, retry=False, body_hex=None, sf=(3, 17)):
    box = {}

    def driver(s):
        hs = secsi_settings(secsgem.common.DeviceType.HOST)
        es = secsi_settings(secsgem.common.DeviceType.EQUIPMENT)
        host = secsgem.secsi.SecsIProtocol(hs)
        eq = secsgem.secsi.SecsIProtocol(es)
        got = {"host": [], "eq": []}
        host.events.message_received += lambda d: got["host"].append(d["message"])
        eq.events.message_received += lambda d: got["eq"].append(d["message"])
        host.enable()
        eq.enable()
        link = env.Link(hs.loop, es.loop, chunk_menu=chunk_menu)
        link.all_bytes = all_bytes
        if paced:
            # the chunks of one write arrive one character time apart (about 1 ms at 9600 baud): the receiver sees every prefix
            hs.loop.pace = es.loop.pace = 0.001
        link.connect()
        s.settle()
        first_dir = "a>b" if direction == "h2e" else "b>a"
        if corrupt is not None:
            # corrupt[0] = which block write (0-based among block writes), translate to the write index in that direction:
            # writes in the sending direction alternate ENQ, block, ENQ, block ...
            link.corrupt = (first_dir, 2 * corrupt[0] + 1, corrupt[1], corrupt[2])
        sender, receiver, rname = (host, eq, "eq") if direction == "h2e" else (eq, host, "host")
        n = 244 * (blocks - 1) + tail  # tail = 244: the body is an exact multiple of the block size
        # body_hex: a body that is not a complete SECS-II item for a catalogued function (the line protocol carries any bytes)
        body1 = body_of(n, 1) if body_hex is None else bytes.fromhex(body_hex)
        hdr1 = secsgem.secsi.SecsIHeader(0x1001, 7, sf[0], sf[1], 0, direction == "e2h", True, True)
        results = {}

        def send1():
            h1 = hdr1
            if twin == "counter":
                # the system bytes come from the protocol's own transaction counter, drawn by each sender thread itself
                box["sys1"] = sender.get_next_system_counter()
                h1 = secsgem.secsi.SecsIHeader(box["sys1"], 7, 3, 17, 0, direction == "e2h", True, True)
            results["first"] = sender.send_message(_sm.SecsIMessage(h1, body1))

        t = vrt.Thread(target=send1, name="sender-1")
        t.start()
        if twin:
            # a second application thread of the same side sends a one-block message at the same time (still only one side transmits):
            # the blocks of the two messages alternate on the line
            bodyt = body_of(11, 4)
            hdrt = secsgem.secsi.SecsIHeader(0x4004, 7, 9, 1, 0, direction == "e2h", False, True)

            def sendt():
                ht = hdrt
                if twin == "counter":
                    box["syst"] = sender.get_next_system_counter()
                    ht = secsgem.secsi.SecsIHeader(box["syst"], 7, 9, 1, 0, direction == "e2h", False, True)
                results["twin"] = sender.send_message(_sm.SecsIMessage(ht, bodyt))

            tt = vrt.Thread(target=sendt, name="sender-twin")
            tt.start()
            tt.join(120.0)
            box["expected_twin"] = (0x4004, bodyt)
        t.join(120.0)
        s.settle()
        box["first_returned"] = "first" in results
        if retry and results.get("first") is False:
            # the application sends the same message again (same system bytes), this time nothing is corrupted on the line
            def send_again():
                results["retry"] = sender.send_message(_sm.SecsIMessage(hdr1, body1))

            tr = vrt.Thread(target=send_again, name="sender-retry")
            tr.start()
            tr.join(120.0)
            s.settle()
            box["retried"] = True
        if second and "first" in results:
            # the other side answers, then the first side sends again (never both at once)
            body2 = body_of(7, 2)
            hdr2 = secsgem.secsi.SecsIHeader(0x2002, 7, 3, 18, 0, direction != "e2h", False, True)

            def send2():
                results["reply"] = receiver.send_message(_sm.SecsIMessage(hdr2, body2))

            t2 = vrt.Thread(target=send2, name="sender-2")
            t2.start()
            t2.join(120.0)
            s.settle()
            body3 = body_of(245, 3)
            hdr3 = secsgem.secsi.SecsIHeader(0x3003, 7, 5, 1, 0, direction == "e2h", False, True)

            def send3():
                results["third"] = sender.send_message(_sm.SecsIMessage(hdr3, body3))

            t3 = vrt.Thread(target=send3, name="sender-3")
            t3.start()
            t3.join(120.0)
            s.settle()
            box["expected2"] = (0x2002, body2)
            box["expected3"] = (0x3003, body3)
        box["results"] = results
        box["got"] = {k: [(m.header.system, m.header.stream, m.header.function, m.header.device_id, m.header.from_equipment,
                           m.header.require_response, bytes(m.data)) for m in v] for k, v in got.items()}
        box["writes"] = list(link.writes)
        box["rname"] = rname
        box["body1"] = body1

    sched = vrt.run(driver, devs, budgets, max_steps=400000, max_time=3600.0, line_points=traced)
    res = {"trace": sched.trace, "v": []}
    case = {"blocks": blocks, "direction": direction, "corrupt": corrupt, "all_bytes": all_bytes, "chunk_menu": chunk_menu, "second": second, "paced": paced, "tail": tail, "twin": twin, "retry": retry}
    if sched.harness_failure or sched.driver_exception:
        res["harness"] = (sched.harness_failure or sched.driver_exception)[-1200:]
        res["obs"] = None
        return res
    region = None
    if corrupt is not None:
        blen = 13 + (244 if corrupt[0] < blocks - 1 else 19)
        off = corrupt[1]
        region = "length" if off == 0 else ("header" if off <= 10 else ("checksum" if off >= blen - 2 else "data"))
    tag = f"blocks={blocks}|{direction}|corrupt={region}"
    res["obs"] = {"outcome": sched.outcome, "results": box.get("results"), "delivered": {k: len(v) for k, v in box.get("got", {}).items()}}
    if sched.outcome != "done" or not box.get("first_returned", False):
        res["v"].append((f"C17|hang|{sched.outcome}|{tag}", {"case": case, "info": sched.deadlock_info, "results": box.get("results")}))
        return res
    results, got, rname = box["results"], box["got"], box["rname"]
    sys1, syst = box.get("sys1", 0x1001), box.get("syst", 0x4004)
    if twin == "counter" and sys1 == syst:
        res["v"].append((f"C17|two-senders-drew-the-same-system-bytes|{tag}", {"case": case, "system": sys1}))
        return res
    mine = [m for m in got[rname] if m[0] == sys1]
    ok1 = results.get("first")
    want1 = (sys1, sf[0], sf[1], 7, direction == "e2h", True, box["body1"])
    if corrupt is None:
        if ok1 is not True:
            res["v"].append((f"C17|clean-message-reported-failed|{tag}", {"case": case, "results": results}))
        if len(mine) != 1:
            res["v"].append((f"C17|delivery-count={len(mine)}|{tag}", {"case": case}))
        elif mine[0] != want1:
            diff = [n for n, a, b in zip(("system", "stream", "function", "device", "R", "W", "body"), mine[0], want1) if a != b]
            res["v"].append((f"C17|delivered-message-differs|{'+'.join(diff)}|{tag}", {"case": case}))
    elif box.get("retried"):
        # first attempt failed (checked without retry elsewhere); the clean second attempt must arrive intact, once
        if results.get("retry") is not True:
            res["v"].append((f"C17|retry-after-failed-send-reported-failed|{tag}", {"case": case, "results": results}))
        elif len(mine) != 1:
            res["v"].append((f"C17|retry-after-failed-send|delivery-count={len(mine)}|{tag}", {"case": case}))
        elif mine[0] != want1:
            diff = [n for n, a, b in zip(("system", "stream", "function", "device", "R", "W", "body"), mine[0], want1) if a != b]
            res["v"].append((f"C17|retry-after-failed-send|delivered-message-differs|{'+'.join(diff)}|{tag}",
                             {"case": case, "got_len": len(mine[0][6]), "want_len": len(want1[6])}))
    else:
        if ok1 is True:
            res["v"].append((f"C17|corrupted-block-reported-success|{tag}", {"case": case}))
        if mine:
            res["v"].append((f"C17|corrupted-message-delivered|{tag}", {"case": case}))
        naks = [w for w in box["writes"] if w[2] == bytes([e4.NAK])]
        if not naks:
            res["v"].append((f"C17|no-NAK-for-corrupted-block|{tag}", {"case": case}))
    if ok1 is True and len(mine) != 1:
        res["v"].append((f"C17|success-but-delivered={len(mine)}|{tag}", {"case": case}))
    if "expected_twin" in box:
        mt = [m for m in got[rname] if m[0] == syst]
        if results.get("twin") is not True or len(mt) != 1 or mt[0][6] != box["expected_twin"][1]:
            res["v"].append((f"C17|concurrent-message-of-the-same-side-fails|{tag}", {"case": case, "results": results, "n": len(mt)}))
    if "expected2" in box:
        other = "host" if rname == "eq" else "eq"
        m2 = [m for m in got[other] if m[0] == 0x2002]
        if results.get("reply") is not True or len(m2) != 1 or m2[0][6] != box["expected2"][1]:
            res["v"].append((f"C17|following-message-in-other-direction-fails|{tag}", {"case": case, "results": results, "n": len(m2)}))
        m3 = [m for m in got[rname] if m[0] == 0x3003]
        if results.get("third") is not True or len(m3) != 1 or m3[0][6] != box["expected3"][1]:
            res["v"].append((f"C17|following-message-fails|{tag}", {"case": case, "results": results, "n": len(m3)}))
    g = grammar(box["writes"])
    if g:
        res["v"].append((f"C17|line-transcript|{g}|{tag}", {"case": case, "writes": [(d, w[:4].hex(), len(w)) for _t, d, w in box["writes"]][:40]}))
    return res


def grammar(writes):
    """Every block write is announced by ENQ from its sender, started only after EOT from the receiver, answered by ACK|NAK."""
    i = 0
    n = len(writes)
    while i < n:
        _t, d, w = writes[i]
        if w != bytes([e4.ENQ]):
            return f"expected-ENQ-got-{'block' if len(w) > 1 else hex(w[0])}"
        back = "b>a" if d == "a>b" else "a>b"
        if i + 1 >= n:
            return None  # trailing ENQ without answer: the exchange was cut by the end of the run
        if writes[i + 1][1] == back and writes[i + 1][2] == bytes([e4.ENQ]):
            i += 1  # contention: the other side's ENQ; the host yields
            continue
        if writes[i + 1][1] != back or writes[i + 1][2] != bytes([e4.EOT]):
            return "ENQ-not-answered-by-EOT"
        if i + 2 >= n:
            return None
        if writes[i + 2][1] != d or len(writes[i + 2][2]) < 13:
            return "EOT-not-followed-by-block"
        if i + 3 >= n:
            return None
        if writes[i + 3][1] != back or writes[i + 3][2] not in (bytes([e4.ACK]), bytes([e4.NAK])):
            return "block-not-answered-by-ACK-or-NAK"
        i += 4
    return None


def corruption_cases(thorough):
    out = []
    for blocks, bi in ((1, 0), (2, 0), (2, 1)) + (((3, 1),) if thorough else ()):
        blen = 13 + (244 if bi < blocks - 1 else 19)
        step = 1 if thorough or blen < 40 else 9
        offs = sorted(set(list(range(1, 14)) + list(range(14, blen - 2, step)) + [blen - 2, blen - 1]))
        for off in offs:
            for mask in ((0x01, 0x80) if thorough else (0x01,)):
                out.append({"blocks": blocks, "corrupt": [bi, off, mask]})
    return out


def check_case(case):
    r = run_one({}, {}, traced=False, **case)
    v = r["v"]
    if r.get("harness"):
        v = v + [("HARNESS|c17", {"case": case, "trace": r["harness"]})]
    return {"v": v, "nt": True}


def run(ctx):
    ctx.assumptions += [
        "two real SecsIProtocol objects joined by an in-memory line with the thread roles of a serial connection; only one side transmits "
        "at a time (the statement's assumption): the driver starts the second sender after the first returned",
        "a corrupted LENGTH byte is not in the enumeration of the main oracle: the statement covers blocks that arrive with a wrong checksum; "
        "with a wrong length the receiver waits for bytes that never come (the library implements no T1/T2) - see known findings",
        "paced cases: the chunks of a write arrive 1 ms of virtual time apart, so the receiver runs between any two of them",
        "line granularity interleavings of sender thread, both receiver threads and dispatchers with <= K delays and <= C chunk deviations",
    ]
    from checks import hsms_harness as hh  # noqa: PLC0415

    missing = hh.trace_region(REGION)
    if missing:
        ctx.note(f"not line-traced (not found): {missing}")
    k = 2 if ctx.thorough else 1
    c = 2 if ctx.thorough else 1
    tot = states = 0
    parts = []
    # the same with paced arrival (each chunk arrives while the receiver is already waiting): every <= 2 cut deviations, default schedule
    for blocks in (1, 2):
        for direction in ("h2e", "e2h"):
            cfg = {"blocks": blocks, "direction": direction, "second": blocks == 1, "paced": True, "traced": False}
            st = explore.explore(ctx, run_one, {"sched": 0, "cut": 2}, f"c17-paced-{blocks}-{direction}", opts=cfg, chunk=8)
            parts.append({"cfg": cfg, "executions": st["executions"], "outcomes": st["distinct_outcomes"], "levels_completed": st["levels_completed"]})
            tot += st["executions"]
            states += st["distinct_outcomes"]
    # two sender threads on one side (blocks of two messages alternate on the line), and a NAKed block against the sender's wake-up: <= K delays
    for cfg in ({"blocks": 3, "direction": "h2e", "second": False, "twin": True, "chunk_menu": False},
                {"blocks": 2, "direction": "e2h", "second": False, "twin": True, "chunk_menu": False},
                {"blocks": 2, "direction": "h2e", "second": False, "twin": "counter", "chunk_menu": False},
                {"blocks": 1, "direction": "h2e", "second": False, "corrupt": [0, 15, 0x01], "chunk_menu": False},
                {"blocks": 2, "direction": "e2h", "second": False, "corrupt": [1, 3, 0x01], "chunk_menu": False}):
        st = explore.explore(ctx, run_one, {"sched": k, "cut": 0}, f"c17-{'twin' if cfg.get('twin') else 'nak'}-{cfg['blocks']}-{cfg['direction']}", opts=cfg, chunk=8)
        parts.append({"cfg": cfg, "executions": st["executions"], "outcomes": st["distinct_outcomes"], "levels_completed": st["levels_completed"]})
        tot += st["executions"]
        states += st["distinct_outcomes"]
    # known finding probe: corrupted length byte (kept apart from the main oracle)
    for label, mask in (("shorter", 0x01), ("longer", 0x80)):
        r = run_one({}, {}, blocks=1, corrupt=[0, 0, mask], second=False, traced=False)
        ctx.evaluations += 1
        for sig, d in r["v"]:
            kind = sig.split("|")[1] + ("|" + sig.split("|")[2] if sig.split("|")[1] in ("hang", "line-transcript") else "")
            ctx.violation(f"C17|length-byte-corruption|{label}|{kind}", d)

    def cases():
        for cc in corruption_cases(ctx.thorough):
            for direction in ("h2e", "e2h"):
                yield dict(cc, direction=direction, second=True, chunk_menu=False)
        for blocks in (1, 2, 3):
            for direction in ("h2e", "e2h"):
                yield {"blocks": blocks, "direction": direction, "all_bytes": True, "chunk_menu": False, "second": True}
                yield {"blocks": blocks, "direction": direction, "all_bytes": True, "chunk_menu": False, "second": True, "paced": True}
                # a block of the message is corrupted (send fails), then the application sends the same message again
                for bi in range(blocks):
                    yield {"blocks": blocks, "direction": direction, "chunk_menu": False, "second": False, "corrupt": [bi, 15, 0x01], "retry": True}
                # bodies that are exact multiples of the block size (244, 488, 732)
                if blocks == 1:
                    # bodies of catalogued functions that are not complete items: a list announcing more members than follow, a lone
                    # format byte, a length byte without payload
                    for bh in ("0102", "0103a90200", "01", "a9", "4103"):
                        yield {"blocks": 1, "direction": direction, "chunk_menu": False, "second": True, "body_hex": bh, "sf": [1, 4]}
                yield {"blocks": blocks, "direction": direction, "chunk_menu": False, "second": True, "tail": 244}

    n = ctx.run_cases(check_case, cases(), "c17-corruption", chunk=8)
    # the deep exploration (K delays x C chunk deviations) comes last and every configuration gets an equal share of what is left of the budget
    main_cfgs = [(blocks, direction) for blocks in (1, 2) + ((3,) if ctx.thorough else ()) for direction in ("h2e", "e2h")]
    for idx, (blocks, direction) in enumerate(main_cfgs):
        cfg = {"blocks": blocks, "direction": direction, "second": blocks == 1}
        with ctx.time_slice(len(main_cfgs) - idx):
            st = explore.explore(ctx, run_one, {"sched": k, "cut": c}, f"c17-{blocks}-{direction}", opts=cfg, chunk=8)
        parts.append({"cfg": cfg, "executions": st["executions"], "outcomes": st["distinct_outcomes"], "levels_completed": st["levels_completed"]})
        tot += st["executions"]
        states += st["distinct_outcomes"]
        if st["levels_completed"] < k + c:
            ctx.exhaustive = False
    ctx.setcov("states", states + n)
    ctx.setcov("transitions", tot + n)
    ctx.setcov("traces_validated_against_impl", tot + n)
    ctx.setcov("delay_bound", k)
    ctx.setcov("cut_bound", c)
    ctx.setcov("parts", parts)


def replay(ctx, detail):
    from checks import hsms_harness as hh  # noqa: PLC0415

    case = dict(detail["case"])
    devs = {int(k): v for k, v in case.pop("devs", {}).items()}
    budgets = case.pop("budgets", {})
    for extra in ("driver", "opts"):
        case.pop(extra, None)
    if devs:
        hh.trace_region(REGION)
    r = run_one(devs, budgets, traced=bool(devs), **case)
    print("replayed:", r.get("obs"))
    ctx.evaluations += 1
    for sig, d in r["v"]:
        ctx.violation(sig, d)
