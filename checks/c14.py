"""C14 - the Item API agrees with SEMI E5 and with the variables API on every value.

Shape E: the C01/C02 families pushed through secsgem.secs.item*: Item(value).value / encode(),
Item.decode(non-canonical bytes).encode(), Item.from_value type selection.
"""
from __future__ import annotations

from checks import c02
from checks import common_e5 as ce
from mc import gen
from ref import e5

LEVEL = "exploration"
BUDGET = {"quick": 240, "thorough": 1500}
V = ce.V


def item_mod():
    from secsgem.secs import item, item_b, item_boolean, item_l, item_number, item_str  # noqa: PLC0415,F401

    return item.Item


def icls(code):
    return item_mod().by_sml_type(code)


def item_forms(node):
    code, val = node
    n = len(val)
    out = []
    if code in e5.INT_W or code in ("F4", "F8"):
        out.append(("list", list(val)))
        if n == 1:
            out.append(("scalar", val[0]))
    elif code == "BOOLEAN":
        out.append(("list", list(val)))
        out.append(("intlist", [int(b) for b in val]))
        if n == 1:
            out.append(("scalar", val[0]))
            out.append(("int", int(val[0])))
    elif code in ("A", "J"):
        out.append(("str", e5.latin1_to_str(val) if code == "A" else e5.jis8_to_str(val)))
        out.append(("bytes", bytes(val)))
    elif code == "B":
        out.append(("bytes", bytes(val)))
        out.append(("intlist", list(val)))
        out.append(("byteslist", [bytes([b]) for b in val]))
        if n == 1:
            out.append(("int", val[0]))
        if n >= 2:
            out.append(("mixedlist", [val[0], bytes(val[1:])]))
    return out


def item_value_expected(node):
    """What Item.value documents: raw bytes for B, str for text, scalar collapse for 1-element numbers."""
    code, val = node
    if code == "L":
        return [item_value_expected(ch) for ch in val]
    if code == "B":
        return bytes(val)
    if code == "A":
        return e5.latin1_to_str(val)
    if code == "J":
        return e5.jis8_to_str(val)
    vals = list(val)
    return vals[0] if len(vals) == 1 else vals


def value_equal(node, got):
    code, val = node
    if code == "L":
        return isinstance(got, list) and len(got) == len(val) and all(value_equal(c, g) for c, g in zip(val, got))
    want = item_value_expected(node)
    if code in ("F4", "F8"):
        # the item holds the python float as given
        return (got == want) if not isinstance(want, list) else (isinstance(got, list) and got == want)
    if isinstance(want, (str, bytes)):
        return type(got) is type(want) and got == want
    if isinstance(want, list) != isinstance(got, list):
        return False
    return got == want


def build_item(node):
    code, val = node
    if code == "L":
        return icls("L")([build_item(ch) for ch in val])
    if code in ("A", "J", "B"):
        return icls(code)(bytes(val))
    return icls(code)(list(val))


def check_leaf(case):
    node = gen.node_from_desc(case["desc"])
    code, val = node
    want = e5.enc(node)
    cls = icls(code)
    out = []
    for fname, value in item_forms(node):
        sigbase = f"{code}|n={c_len(len(val))}|{fname}"
        try:
            it = cls(value)
        except Exception as exc:  # noqa: BLE001
            out.append((f"C14|rejects-valid-value|{sigbase}", {"case": case, "form": fname, "error": repr(exc)}))
            continue
        try:
            if not value_equal(node, it.value):
                out.append((f"C14|value-not-held|{sigbase}", {"case": case, "form": fname, "got": repr(it.value)[:200], "want": repr(item_value_expected(node))[:200]}))
            got = it.encode()
            if got != want:
                out.append((f"C14|encode-mismatch|{sigbase}", {"case": case, "form": fname, "got": got[:64], "want": want[:64]}))
        except Exception as exc:  # noqa: BLE001
            out.append((f"C14|value-or-encode-raises|{sigbase}", {"case": case, "form": fname, "error": repr(exc)}))
    # both APIs produce identical bytes for the same typed value
    try:
        vb = ce.build_var(node).encode()
        ib = build_item(node).encode()
        if vb != ib:
            out.append((f"C14|apis-disagree|{code}|n={c_len(len(val))}", {"case": case, "variables": vb[:64], "items": ib[:64]}))
    except Exception as exc:  # noqa: BLE001
        out.append((f"C14|apis-raise|{code}|n={c_len(len(val))}", {"case": case, "error": repr(exc)}))
    return {"v": out, "nt": len(val) <= 3 or len(want) in (0x101, 0x102, 0x10003, 0x10004)}


def c_len(n):
    if n <= 2:
        return str(n)
    if n <= 255:
        return "3..255"
    return "256.."


def check_decode(case):
    """Item.decode over every assignment of length bytes; re-encode must be canonical, value must be the node's."""
    node = gen.node_from_desc(case["desc"])
    Item = item_mod()  # noqa: N806
    out = []
    canon = e5.enc(node)
    n_as = 0
    for asg in c02.assignments(node, case.get("limit", 6)):
        data = c02.encode_with(node, asg)
        n_as += 1
        targets = [("Item", Item)]
        if node[0] != "L":
            targets.append((node[0], icls(node[0])))
        else:
            targets.append(("L", icls("L")))
        for tname, cls in targets:
            try:
                it = cls.decode(data)
                again = it.encode()
                val = it.value
            except Exception as exc:  # noqa: BLE001
                out.append((f"C14|decode-raises|{node[0]}|{tname}", {"case": case, "error": repr(exc), "bytes": data[:48]}))
                continue
            if again != canon:
                out.append((f"C14|decode-reencode-not-canonical|{node[0]}|{tname}", {"case": case, "got": again[:64], "want": canon[:64], "bytes": data[:48]}))
            if type(it) is not (icls(node[0])):
                out.append((f"C14|decode-wrong-class|{node[0]}|{tname}", {"case": case, "got": type(it).__name__}))
            if not _decoded_value_equal(node, val):
                out.append((f"C14|decode-value|{node[0]}|{tname}", {"case": case, "got": repr(val)[:200], "want": repr(item_value_expected(node))[:200]}))
    return {"v": out, "nt": n_as > 1, "cnt": {"encodings_decoded": n_as}}


def _decoded_value_equal(node, got):
    code, val = node
    if code == "L":
        return isinstance(got, list) and len(got) == len(val) and all(_decoded_value_equal(c, g) for c, g in zip(val, got))
    if code in ("F4", "F8"):
        return e5.same_value(code, e5.py_value(node), got)
    return value_equal(node, got)


def narrowest(v):
    if v >= 0:
        for code in ("U1", "U2", "U4", "U8"):
            if v <= e5.int_range(code)[1]:
                return code
        return None
    for code in ("I1", "I2", "I4", "I8"):
        if v >= e5.int_range(code)[0]:
            return code
    return None


def check_from_value(case):
    Item = item_mod()  # noqa: N806
    kind = case["fv"]
    out = []
    if kind == "int":
        v = case["value"]
        want = narrowest(v)
        # values that compare (and hash) equal to v but are of another type are converted first: the result for v must not depend on it
        for other in ([float(v)] if abs(v) < 2 ** 53 else []) + ([bool(v)] if v in (0, 1) else []):
            try:
                Item.from_value(other)
            except Exception:  # noqa: BLE001
                pass
        try:
            it = Item.from_value(v)
        except Exception as exc:  # noqa: BLE001
            if want is not None:
                out.append((f"C14|from_value-rejects-int|{want}", {"case": case, "error": repr(exc)}))
            return {"v": out, "nt": True}
        if want is None:
            out.append(("C14|from_value-accepts-unrepresentable-int", {"case": case, "got": type(it).__name__}))
        elif type(it) is not icls(want) or it.value != v or type(it.value) is not int:
            out.append((f"C14|from_value-int-type|want={want}|got={type(it).__name__}", {"case": case, "value_held": repr(it.value)}))
        else:
            try:
                if it.encode() != e5.enc((want, [v])):
                    out.append((f"C14|from_value-int-encode|{want}", {"case": case}))
            except Exception as exc:  # noqa: BLE001
                out.append((f"C14|from_value-int-encode-raises|{want}", {"case": case, "error": repr(exc)}))
        return {"v": out, "nt": True}
    # structured python values -> expected node
    value, node = _py_and_node(case["spec"])
    try:
        it = Item.from_value(value)
        got = it.encode()
    except Exception as exc:  # noqa: BLE001
        return {"v": [(f"C14|from_value-raises|{case['name']}", {"case": case, "error": repr(exc)})], "nt": True}
    if got != e5.enc(node):
        out.append((f"C14|from_value-encode|{case['name']}", {"case": case, "got": got[:64], "want": e5.enc(node)[:64]}))
    if not value_equal(node, it.value):
        out.append((f"C14|from_value-changes-value|{case['name']}", {"case": case, "got": repr(it.value)[:200]}))
    return {"v": out, "nt": True}


def _py_and_node(spec):
    """spec: JSON description of a plain python value -> (python value, expected reference node)."""
    t = spec["t"]
    if t == "bool":
        return bool(spec["v"]), ("BOOLEAN", [bool(spec["v"])])
    if t == "int":
        return spec["v"], (narrowest(spec["v"]), [spec["v"]])
    if t == "str":
        s = "".join(chr(c) for c in spec["v"])
        return s, ("A", bytes(spec["v"]))
    if t == "bytes":
        return bytes(spec["v"]), ("B", bytes(spec["v"]))
    if t == "list":
        parts = [_py_and_node(x) for x in spec["v"]]
        return [p[0] for p in parts], ("L", [p[1] for p in parts])
    if t == "dict":
        parts = [_py_and_node(x) for x in spec["v"]]
        return {f"k{i}": p[0] for i, p in enumerate(parts)}, ("L", [p[1] for p in parts])
    raise ValueError(t)


def check_boolean_bytes(case):
    """Every byte value of a BOOLEAN item as a peer may send it (E5: zero is false, everything else true), alone, in an array, in a list."""
    Item = item_mod()  # noqa: N806
    out = []
    for b in range(case["lo"], case["hi"]):
        t = b != 0
        for shape, data, node in (("alone", bytes([0x25, 1, b]), ("BOOLEAN", [t])),
                                  ("array", bytes([0x25, 3, b, 0, b]), ("BOOLEAN", [t, False, t])),
                                  ("two-length-bytes", bytes([0x26, 0, 1, b]), ("BOOLEAN", [t])),
                                  ("in-list", bytes([0x01, 2, 0x25, 1, b, 0xA5, 1, 7]), ("L", [("BOOLEAN", [t]), ("U1", [7])]))):
            for tname, cls in (("Item", Item), (node[0], icls(node[0]))):
                try:
                    it = cls.decode(data)
                    again = it.encode()
                    val = it.value
                except Exception as exc:  # noqa: BLE001
                    out.append((f"C14|boolean-byte-decode-raises|{shape}|{tname}", {"case": case, "byte": b, "error": repr(exc), "bytes": data.hex()}))
                    continue
                if again != e5.enc(node) or not _decoded_value_equal(node, val):
                    out.append((f"C14|boolean-nonzero-byte-not-true|{shape}|{tname}", {"case": case, "byte": b, "value": repr(val), "reencoded": again.hex()}))
    return {"v": out, "nt": True}


def check_case(case):
    k = case["kind"]
    if k == "leaf":
        return check_leaf(case)
    if k == "boolbytes":
        return check_boolean_bytes(case)
    if k == "decode":
        return check_decode(case)
    if k == "from_value":
        return check_from_value(case)
    if k == "tree":
        node = gen.node_from_desc(case["desc"])
        out = []
        try:
            it = build_item(node)
            if it.encode() != e5.enc(node):
                out.append(("C14|tree-encode-mismatch", {"case": case}))
            if ce.build_var(node).encode() != it.encode():
                out.append(("C14|tree-apis-disagree", {"case": case}))
            if not value_equal(node, it.value):
                out.append(("C14|tree-value-not-held", {"case": case, "got": repr(it.value)[:200]}))
            # the item holds the value it was built from: changing the caller's own list afterwards must not change the item
            if node[0] == "L":
                members = [build_item(ch) for ch in node[1]]
                own = list(members)
                held = icls("L")(own)
                before = held.encode()
                own.append(icls("U1")(77))
                if own[:-1]:
                    own[0] = icls("A")("changed")
                if held.encode() != before or before != e5.enc(node):
                    out.append(("C14|list-item-follows-the-callers-list-after-construction", {"case": case}))
        except Exception as exc:  # noqa: BLE001
            out.append(("C14|tree-raises", {"case": case, "error": repr(exc)}))
        return {"v": out, "nt": True}
    raise ValueError(k)


def cases(ctx):
    thorough = ctx.thorough
    for code in gen.rotate(gen.LEAF_CODES, ctx.seed):
        counts = gen.boundary_counts(code, (0xFF, 0xFFFF))
        for d in gen.leaf_family(code, counts):
            yield {"kind": "leaf", "desc": d}
            yield {"kind": "decode", "desc": d}
    for code in ("A", "J", "B"):
        for b in range(256):
            yield {"kind": "leaf", "desc": {"code": code, "vals": [b]}}
            yield {"kind": "decode", "desc": {"code": code, "vals": [b]}}
    mant4 = [0, 1, 0x400000, 0x7FFFFF]
    mant8 = [0, 1, 1 << 51, (1 << 52) - 1]
    for sign in (0, 1):
        for e in range(0, 255):
            d = {"code": "F4", "bits": [(sign << 31) | (e << 23) | m for m in mant4]}
            yield {"kind": "leaf", "desc": d}
            yield {"kind": "decode", "desc": d}
        for e in (range(0, 2047) if thorough else list(range(0, 8)) + list(range(1000, 1050)) + list(range(2030, 2047))):
            d = {"code": "F8", "bits": [(sign << 63) | (e << 52) | m for m in mant8]}
            yield {"kind": "leaf", "desc": d}
            yield {"kind": "decode", "desc": d}
    for lo in range(0, 256, 32):
        yield {"kind": "boolbytes", "lo": lo, "hi": lo + 32}
    # trees
    limit = 6 if thorough else 5
    seen = set()
    for t in gen.trees(2, 2):
        r = repr(t)
        if r in seen or t["code"] != "L":
            continue
        seen.add(r)
        yield {"kind": "tree", "desc": t}
        if len(c02.nodes_preorder(gen.node_from_desc(t))) <= limit:
            yield {"kind": "decode", "desc": t, "limit": limit}
    # an empty item of every type followed by another item in one list
    for code in gen.LEAF_CODES:
        if code == "J":
            continue  # (the variables API, which the tree case compares with, has no JIS-8 inside a free list)
        t = {"code": "L", "items": [{"code": code, "vals": []}, {"code": "U1", "vals": [5]}, {"code": code, "vals": []}]}
        yield {"kind": "tree", "desc": t}
        yield {"kind": "decode", "desc": t, "limit": 4}
    # from_value: every integer at +-1 around every power of two up to 2^64 and the negatives
    seen_i = set()
    for k in range(0, 66):
        for d in (-1, 0, 1):
            for s in (1, -1):
                v = s * ((1 << k) + d)
                if v not in seen_i:
                    seen_i.add(v)
                    yield {"kind": "from_value", "fv": "int", "value": v}
    specs = [
        ("bool-true", {"t": "bool", "v": 1}), ("bool-false", {"t": "bool", "v": 0}),
        ("str-empty", {"t": "str", "v": []}), ("str", {"t": "str", "v": [0x68, 0x22, 0xE9]}),
        ("bytes-empty", {"t": "bytes", "v": []}), ("bytes", {"t": "bytes", "v": [0, 255, 16]}),
        ("list-empty", {"t": "list", "v": []}),
        ("list-mixed", {"t": "list", "v": [{"t": "bool", "v": 1}, {"t": "int", "v": 1}, {"t": "int", "v": -1}, {"t": "int", "v": 256},
                                            {"t": "str", "v": [0x61]}, {"t": "bytes", "v": [1]}]}),
        ("list-nested", {"t": "list", "v": [{"t": "list", "v": [{"t": "int", "v": 65536}, {"t": "list", "v": []}]}, {"t": "int", "v": -32769}]}),
    ]
    for name, spec in specs:
        yield {"kind": "from_value", "fv": "struct", "name": name, "spec": spec}


def run(ctx):
    ctx.assumptions += [
        "reference codec ref/e5.py; Item.value conventions adopted as documented (raw bytes for B, str for A/J, scalar collapse)",
        "floats are excluded from the from_value type-selection oracle (the statement lists bool, int, str, bytes, list)",
    ]
    ctx.setcov("rule", "C01 leaf/tree families through Item(value) for every constructor input form, Item.decode over every assignment of "
                       "1/2/3 length bytes, Item.from_value over every integer at +-1 around 2^k (k<=65) and structured python values; "
                       "non-trivial = boundary-valued leaf with <=3 elements / non-canonical encoding decoded / from_value probe / tree")
    # thread-pair independence first (LINE events are switched off again before the enumeration)
    from checks import pair_ops  # noqa: PLC0415
    from mc import firstuse, pairs  # noqa: PLC0415

    # first use in a process before anything else touches the library (the workers must be pristine)
    fu_ops = [["fu_item_decode", "0102b10400010203"], ["fu_item_value", [1, "x", [70000]]]] + ([["fu_item_sml", "<L <U1 1> <A \"x\">>"]] if ctx.thorough else [])  # one forked child per execution (~16 executions/s): two operations in the quick tier
    firstuse.run_part(ctx, fu_ops, "C14", 2 if ctx.thorough else 1)
    ops = [["item", d] for d in pair_ops.LEAVES[:4] + pair_ops.TREES[:1]] + [["from_value", 250], ["from_value", [1, "x", [70000]]]]
    pair_execs = pairs.run_part(ctx, ops, "C14", 2 if ctx.thorough else 1)
    ctx.run_cases(check_case, cases(ctx), "c14", chunk=32)


def replay(ctx, detail):
    if isinstance(detail.get("case"), dict) and detail["case"].get("part") == "first-use":
        from mc import firstuse  # noqa: PLC0415

        firstuse.replay(ctx, detail["case"], "C14")
        return
    if isinstance(detail.get("case"), dict) and detail["case"].get("part") == "pair":
        from mc import pairs  # noqa: PLC0415

        pairs.replay_pair(ctx, detail["case"], "C14")
        return
    res = check_case(detail["case"])
    ctx.evaluations += 1
    for sig, d in res.get("v", ()):
        ctx.violation(sig, d)
