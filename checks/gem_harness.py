"""Shared pieces for drivers of the real GEM handlers over HsmsProtocol over LoopConnection."""
from __future__ import annotations

from checks import hsms_harness as hh
from mc import vrt
from ref import e5, e37

import secsgem.common
import secsgem.gem

T3 = 45.0
T6 = 5.0
DELAY = 10


def body_s1f13(from_host):
    return e5.enc(("L", [])) if from_host else e5.enc(("L", [("A", b"peer"), ("A", b"1.0")]))


def body_s1f14(commack, from_host):
    inner = ("L", []) if from_host else ("L", [("A", b"peer"), ("A", b"1.0")])
    return e5.enc(("L", [("B", bytes([commack])), inner]))


def decode_body(body):
    """Reference-decode a message body -> node or None for an empty body."""
    if not body:
        return None
    node, pos = e5.dec(body)
    if pos != len(body):
        raise ValueError("trailing bytes")
    return node


class GemEndpoint(hh.Endpoint):
    """A real GEM handler (host or equipment) with its protocol and connection."""

    def __init__(self, role, active=None, handler_cls=None, handler_kwargs=None, **settings_kw):
        from mc import env  # noqa: PLC0415

        self.role = role
        if active is None:
            active = role == "host"
        dt = secsgem.common.DeviceType.HOST if role == "host" else secsgem.common.DeviceType.EQUIPMENT
        settings_kw.setdefault("t3", T3)
        settings_kw.setdefault("t6", T6)
        settings_kw.setdefault("establish_communication_timeout", DELAY)
        settings = env.hsms_settings(active=active, device_type=dt, **settings_kw)
        cls = handler_cls or (secsgem.gem.GemHostHandler if role == "host" else secsgem.gem.GemEquipmentHandler)
        self.handler = cls(settings, **(handler_kwargs or {}))
        super().__init__(active=active, protocol=self.handler.protocol, settings=settings)
        self.active = active
        self.n_in = 0

    def comm(self):
        return self.handler.communication_state.current.name

    def next_system(self):
        self.n_in += 1
        return 0x5000 + self.n_in

    # ---- link management from the peer's side
    def link_up(self, s):
        conn = self.conn
        if conn.link_up or not conn.enabled:
            return False
        conn.peer_connect()
        s.settle()
        if self.active:
            for f in self.pump():
                if f["stype"] == e37.SELECT_REQ:
                    conn.peer_send(e37.control(e37.SELECT_RSP, f["system"]))
        else:
            conn.peer_send(e37.control(e37.SELECT_REQ, self.next_system()))
        return True

    def send_primary(self, stream, function, w, body=b"", system=None):
        system = self.next_system() if system is None else system
        self.conn.peer_send(e37.data(stream, function, w, system, body))
        return system

    def establish(self, s):
        """Drive the endpoint to COMMUNICATING by answering its S1F13 (helper for checks that start there)."""
        self.handler.enable()
        self.link_up(s)
        s.settle()
        for f in self.pump():
            if f["stype"] == 0 and (f["stream"], f["function"]) == (1, 13):
                self.conn.peer_send(e37.data(1, 14, False, f["system"], body_s1f14(0, from_host=self.role != "host")))
        s.settle()
        self.pump()
        return self.comm() == "COMMUNICATING"

    def auto_reply(self, frames):
        """Acknowledge equipment-initiated primaries (S5F1, S6F11, S1F1) the way a host would, so callers do not run into T3."""
        n = 0
        for f in frames:
            if f["stype"] != 0:
                continue
            sf = (f["stream"], f["function"])
            # S5F1 is sent without W-bit by the library, which nevertheless waits T3 for S5F2: a friendly host answers anyway
            if not f["w"] and sf != (5, 1):
                continue
            if sf == (6, 11):
                self.conn.peer_send(e37.data(6, 12, False, f["system"], e5.enc(("B", b"\x00"))))
                n += 1
            elif sf == (5, 1):
                self.conn.peer_send(e37.data(5, 2, False, f["system"], e5.enc(("B", b"\x00"))))
                n += 1
        return n


def live_roles(s):
    out = []
    for t in s.threads:
        if t.state == vrt.DONE or t is s.current:
            continue
        name = t.name
        for key in ("protocol_receiver", "protocol_dispatcher", "linktestTimer", "sendSelectReqThread", "conn-receiver", "conn-acceptor",
                    "Timer"):
            if key in name:
                name = key
                break
        out.append(name)
    return sorted(out)
