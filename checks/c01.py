"""C01 - SECS-II values round-trip and are encoded exactly as SEMI E5 prescribes (variables API).

Shape E: bounded-exhaustive enumeration of typed values against the independent codec ref/e5.py.
"""
from __future__ import annotations

import math
import struct

from checks import common_e5 as ce
from mc import gen
from ref import e5

LEVEL = "exploration"
BUDGET = {"quick": 240, "thorough": 1500}
V = ce.V


def lenclass(n):
    if n <= 1:
        return str(n)
    if n <= 0xFF:
        return "2..255"
    if n <= 0xFFFF:
        return "256..65535"
    return "65536.."


def _sig(kind, code, n, form=""):
    return f"C01|{kind}|{code}|len={lenclass(n)}|{form}"


def check_leaf(case):
    node = gen.node_from_desc(case["desc"])
    code, val = node
    want = e5.enc(node)
    nbytes = len(want)
    out = []
    nt = len(val) * e5.ELEM[code] in (0xFF, 0x100, 0xFFFF, 0x10000, 0xFFFFFF) or len(val) <= 3
    cls = ce.VCLASS[code]
    forms = ce.input_forms(node, all_forms=case.get("forms", "all") == "all")
    objs = []
    for fname, value in forms:
        try:
            obj = cls(value)
        except Exception as exc:  # noqa: BLE001
            out.append((_sig("rejects-valid-value", code, len(val), fname),
                        {"case": case, "form": fname, "error": repr(exc), "value": ce.short(node)}))
            continue
        objs.append((fname, obj))
        try:
            got = obj.encode()
        except Exception as exc:  # noqa: BLE001
            out.append((_sig("encode-raises", code, len(val), fname), {"case": case, "form": fname, "error": repr(exc)}))
            continue
        if got != want:
            out.append((_sig("encode-mismatch", code, len(val), fname),
                        {"case": case, "form": fname, "got": got[:64], "want": want[:64], "got_len": len(got), "want_len": len(want)}))
        try:
            g = obj.get()
            if not ce.tree_equal(node, g):
                out.append((_sig("get-after-set", code, len(val), fname),
                            {"case": case, "form": fname, "got": repr(g)[:200], "want": repr(e5.py_value(node))[:200]}))
        except Exception as exc:  # noqa: BLE001
            out.append((_sig("get-raises", code, len(val), fname), {"case": case, "error": repr(exc)}))

    # decode of the E5 bytes: fresh object, reused object, at an offset, with trailing bytes
    other = cls(bytes([0x41, 0x42, 0x43])) if code in ("A", "J", "B") else cls([1, 0, 1] if code != "BOOLEAN" else [True, False, True])
    variants = [("fresh", cls(), want, 0, nbytes), ("reused", other, want, 0, nbytes),
                ("offset+trailing", cls(), b"\xff\xfe" + want + b"\x01\x01\x00", 2, nbytes + 2)]
    for vname, obj, data, start, endpos in variants:
        try:
            pos = obj.decode(data, start)
            g = obj.get()
        except Exception as exc:  # noqa: BLE001
            out.append((_sig("decode-raises", code, len(val), vname),
                        {"case": case, "variant": vname, "error": repr(exc), "bytes": data[:32], "value": ce.short(node)}))
            continue
        if pos != endpos:
            out.append((_sig("decode-position", code, len(val), vname), {"case": case, "variant": vname, "got": pos, "want": endpos}))
        if not ce.tree_equal(node, g):
            out.append((_sig("decode-value", code, len(val), vname),
                        {"case": case, "variant": vname, "got": repr(g)[:200], "want": repr(e5.py_value(node))[:200]}))
        try:
            again = obj.encode()
            if again != want:
                out.append((_sig("reencode-mismatch", code, len(val), vname), {"case": case, "got": again[:64], "want": want[:64]}))
        except Exception as exc:  # noqa: BLE001
            out.append((_sig("reencode-raises", code, len(val), vname), {"case": case, "error": repr(exc)}))
    return {"v": out, "nt": nt}


def check_tree(case):
    node = gen.node_from_desc(case["desc"])
    want = e5.enc(node)
    out = []
    depth = _depth(node)
    try:
        obj = ce.build_var(node)
        got = obj.encode()
    except Exception as exc:  # noqa: BLE001
        return {"v": [(f"C01|tree-build-or-encode-raises|depth={depth}", {"case": case, "error": repr(exc)})], "nt": True}
    if got != want:
        out.append((f"C01|tree-encode-mismatch|depth={depth}", {"case": case, "got": got[:64], "want": want[:64]}))
    def used(mk):
        # the same target on its second use: it already decoded another, non-empty list
        def make():
            o = mk()
            o.decode(e5.enc(("L", [("U1", [9]), ("A", b"zz"), ("L", [("U2", [300])])])))
            return o
        return make

    for vname, mk in (("anyvalue", lambda: ce.anyvalue()()), ("array", lambda: V.Array(ce.anyvalue())),
                      ("anyvalue/reused", used(lambda: ce.anyvalue()())), ("array/reused", used(lambda: V.Array(ce.anyvalue())))):
        if vname.startswith("array") and node[0] != "L":
            continue
        try:
            o2 = mk()
            pos = o2.decode(want)
            g = o2.get()
        except Exception as exc:  # noqa: BLE001
            out.append((f"C01|tree-decode-raises|{vname}|depth={depth}", {"case": case, "error": repr(exc), "bytes": want[:48]}))
            continue
        if pos != len(want):
            out.append((f"C01|tree-decode-position|{vname}|depth={depth}", {"case": case, "got": pos, "want": len(want)}))
        if not ce.tree_equal(node, g):
            out.append((f"C01|tree-decode-value|{vname}|depth={depth}", {"case": case, "got": repr(g)[:300], "want": repr(e5.py_value(node))[:300]}))
        try:
            if o2.encode() != want:
                out.append((f"C01|tree-reencode-mismatch|{vname}|depth={depth}", {"case": case}))
        except Exception as exc:  # noqa: BLE001
            out.append((f"C01|tree-reencode-raises|{vname}|depth={depth}", {"case": case, "error": repr(exc)}))
    return {"v": out, "nt": depth >= 1}


def _depth(node):
    if node[0] != "L":
        return 0
    return 1 + max((_depth(ch) for ch in node[1]), default=0)


def check_accept(case):
    """A value outside the E5 range of a type: if the library accepts it, it must still produce a valid
    E5 item that decodes to the same value (it cannot), so acceptance is the violation.  For floats inside
    the binary range the accepted value must survive its own encode/decode."""
    code = case["code"]
    cls = ce.VCLASS[code]
    value = case["value"]
    if case.get("float_hex"):
        value = float.fromhex(case["float_hex"])
    out = []
    try:
        obj = cls([value])
    except Exception:  # noqa: BLE001
        return {"v": [], "nt": True, "cnt": {"rejected_out_of_range": 1}}
    if code in e5.INT_W:
        lo, hi = e5.int_range(code)
        if not lo <= value <= hi:
            try:
                enc = obj.encode()
                out.append((f"C01|accepts-out-of-range|{code}|{'below' if value < lo else 'above'}",
                            {"case": case, "encoded": enc}))
            except Exception as exc:  # noqa: BLE001
                out.append((f"C01|accepts-out-of-range-then-encode-raises|{code}|{'below' if value < lo else 'above'}",
                            {"case": case, "error": repr(exc)}))
        return {"v": out, "nt": True}
    # floats: accepted value -> encode -> decode must work and give the binary rounding of the value
    fmt = ">f" if code == "F4" else ">d"
    try:
        ref_bytes = struct.pack(fmt, value)
    except (OverflowError, struct.error):
        ref_bytes = None
    try:
        enc = obj.encode()
    except Exception as exc:  # noqa: BLE001
        out.append((f"C01|accepted-float-encode-raises|{code}", {"case": case, "error": repr(exc)}))
        return {"v": out, "nt": True}
    if ref_bytes is None:
        out.append((f"C01|accepts-float-without-encoding|{code}", {"case": case, "encoded": enc}))
        return {"v": out, "nt": True}
    if enc != e5.header(code, len(ref_bytes)) + ref_bytes:
        out.append((f"C01|float-encode-mismatch|{code}", {"case": case, "got": enc, "want": ref_bytes}))
    try:
        o2 = cls()
        o2.decode(enc)
        g = o2.get()
        if struct.pack(fmt, g) != ref_bytes:
            out.append((f"C01|float-decode-value|{code}", {"case": case, "got": repr(g)}))
    except Exception as exc:  # noqa: BLE001
        out.append((f"C01|accepted-float-does-not-decode|{code}", {"case": case, "error": repr(exc), "encoded": enc}))
    return {"v": out, "nt": True}


RECORDS = [
    # (name, format as data item class names, values as typed descriptors per field)
    ("MDLN+SOFTREV", ["MDLN", "SOFTREV"], [{"code": "A", "vals": [0x61] * 20}, {"code": "A", "vals": []}]),
    ("SVID+MDLN", ["SVID", "MDLN"], [{"code": "U4", "vals": [0xFFFFFFFF]}, {"code": "A", "vals": [0x22, 0x3C]}]),
    ("SVID(I8)+SVID(A)", ["SVID", "ECID"], [{"code": "I8", "vals": [-(2 ** 63)]}, {"code": "A", "vals": [0x41] * 256}]),
    ("nested", ["DATAID", ["RPTID", ["VID"]]], None),
]


def check_record(case):
    """List (keyed record) and Array of data items with typed leaf values, nested."""
    import secsgem.secs.data_items as DI  # noqa: PLC0415,N812

    out = []
    name = case["name"]
    if name == "nested":
        fmt = [DI.DATAID, [[DI.RPTID, [DI.VID]]]]
        k = case["k"]
        vids = [V.U2(i + 254) for i in range(case["m"])]
        value = [V.U4(0xFFFFFFFF), [[V.U1(i), list(vids)] for i in range(k)]]
        node = ("L", [("U4", [0xFFFFFFFF]),
                      ("L", [("L", [("U1", [i]), ("L", [("U2", [j + 254]) for j in range(case["m"])])]) for i in range(k)])])
    else:
        rec = next(r for r in RECORDS if r[0] == name)
        fmt = [getattr(DI, n) for n in rec[1]]
        leaves = [gen.node_from_desc(d) for d in rec[2]]
        value = [ce.build_var(n) if f.__type__ is V.Dynamic else e5.py_value(n) for f, n in zip(fmt, leaves)]
        node = ("L", leaves)
    want = e5.enc(node)
    try:
        obj = V.List(fmt, value)
        got = obj.encode()
    except Exception as exc:  # noqa: BLE001
        return {"v": [(f"C01|record-build-or-encode-raises|{name}", {"case": case, "error": repr(exc)})], "nt": True}
    if got != want:
        out.append((f"C01|record-encode-mismatch|{name}", {"case": case, "got": got[:80], "want": want[:80]}))
    try:
        o2 = V.List(fmt)
        pos = o2.decode(want)
        if pos != len(want):
            out.append((f"C01|record-decode-position|{name}", {"case": case, "got": pos, "want": len(want)}))
        if o2.encode() != want:
            out.append((f"C01|record-reencode-mismatch|{name}", {"case": case}))
        flat = _flatten(o2.get())
        if not ce.tree_equal(node, flat):
            out.append((f"C01|record-decode-value|{name}", {"case": case, "got": repr(flat)[:300]}))
    except Exception as exc:  # noqa: BLE001
        out.append((f"C01|record-decode-raises|{name}", {"case": case, "error": repr(exc)}))
    if name == "nested":
        # the same record object decodes a second message: nothing of the first one (two reports of two / three variables) may stay
        prior = ("L", [("U4", [7]), ("L", [("L", [("U1", [200 + i]), ("L", [("U2", [j + 1000]) for j in range(2 + i)])]) for i in range(2)])])
        try:
            o3 = V.List(fmt)
            o3.decode(e5.enc(prior))
            pos = o3.decode(want)
            flat = _flatten(o3.get())
            if pos != len(want) or o3.encode() != want or not ce.tree_equal(node, flat):
                out.append((f"C01|record-second-decode-differs|{name}", {"case": case, "got": repr(flat)[:300], "reencoded": o3.encode()[:80], "want": want[:80]}))
        except Exception as exc:  # noqa: BLE001
            out.append((f"C01|record-second-decode-raises|{name}", {"case": case, "error": repr(exc)}))
    return {"v": out, "nt": True}


def _flatten(v):
    if isinstance(v, dict):
        return [_flatten(x) for x in v.values()]
    if isinstance(v, list):
        return [_flatten(x) for x in v]
    return v


def check_text_chars(case):
    """Every character of a range offered as a one-character str: either refused, or encoded and decoded back to the same character."""
    code = case["code"]
    cls = ce.VCLASS[code]
    out = []
    n = 0
    for cp in range(case["lo"], case["hi"]):
        ch = chr(cp)
        try:
            obj = cls(ch)
        except Exception:  # noqa: BLE001
            continue
        n += 1
        try:
            raw = obj.encode()
            back = cls()
            back.decode(raw)
            got = back.get()
        except Exception as exc:  # noqa: BLE001
            out.append((f"C01|accepted-text-character-does-not-decode|{code}", {"case": case, "char": hex(cp), "error": repr(exc)}))
            continue
        if got != ch:
            out.append((f"C01|accepted-text-character-does-not-round-trip|{code}", {"case": case, "char": hex(cp), "got": repr(got), "bytes": raw.hex()}))
    return {"v": out, "nt": True, "cnt": {"characters_accepted": n}}


def check_refused_update(case):
    """A value that is refused (too long for a limited item, out of range, wrong type) leaves the object as it was: same get(), same bytes."""
    import secsgem.secs.data_items as DI  # noqa: PLC0415,N812

    out = []
    kind = case["target"]
    if kind == "MDLN":
        obj, good, bads = DI.MDLN("OK"), e5.enc(("A", b"OK")), ["MUCH TOO LONG FOR TWENTY CHARACTERS", 5.5]
    elif kind == "String[4]":
        obj, good, bads = ce.VCLASS["A"]("abcd", count=4), e5.enc(("A", b"abcd")), ["abcde", "x" * 300]
    elif kind == "Binary[2]":
        obj, good, bads = ce.VCLASS["B"](b"\x01\x02", count=2), e5.enc(("B", b"\x01\x02")), [b"\x01\x02\x03", "text"]
    elif kind == "U1":
        obj, good, bads = ce.VCLASS["U1"]([1, 2]), e5.enc(("U1", [1, 2])), [[1, 256], [-1], "x"]
    elif kind == "I2[2]":
        obj, good, bads = ce.VCLASS["I2"]([1, -2], count=2), e5.enc(("I2", [1, -2])), [[1, 2, 3], [40000]]
    else:
        raise ValueError(kind)
    before = obj.get()
    for bad in bads:
        for how in ("set", "decode"):
            try:
                if how == "set":
                    obj.set(bad)
                else:
                    raw = None
                    if isinstance(bad, str):
                        raw = e5.enc(("A", bad.encode("latin-1")))
                    elif isinstance(bad, bytes):
                        raw = e5.enc(("B", bad))
                    elif isinstance(bad, list) and all(isinstance(x, int) for x in bad) and kind == "I2[2]" and all(-32768 <= x <= 32767 for x in bad):
                        raw = e5.enc(("I2", bad))
                    if raw is None:
                        continue
                    obj.decode(raw)
                refused = False
            except Exception:  # noqa: BLE001
                refused = True
            if not refused:
                continue  # accepted: not this case's business (over-long values are observed elsewhere)
            try:
                now, raw_now = obj.get(), obj.encode()
            except Exception as exc:  # noqa: BLE001
                out.append((f"C01|object-unusable-after-a-refused-{how}|{kind}", {"case": case, "error": repr(exc)}))
                continue
            if now != before or raw_now != good:
                out.append((f"C01|refused-{how}-changes-the-object|{kind}", {"case": case, "bad": repr(bad)[:40], "get": repr(now)[:60], "bytes": raw_now.hex()[:80],
                                                                            "want_bytes": good.hex()}))
    return {"v": out, "nt": True}


def check_case(case):
    if case["kind"] == "chars":
        return check_text_chars(case)
    if case["kind"] == "refused":
        return check_refused_update(case)
    kind = case["kind"]
    if kind == "leaf":
        return check_leaf(case)
    if kind == "tree":
        return check_tree(case)
    if kind == "accept":
        return check_accept(case)
    if kind == "record":
        return check_record(case)
    raise ValueError(kind)


def cases(ctx):
    thorough = ctx.thorough
    # 1. leaves: every type x boundary counts x boundary values
    for code in gen.rotate(gen.LEAF_CODES, ctx.seed):
        limits = (0xFF, 0xFFFF)
        counts = gen.boundary_counts(code, limits)
        for d in gen.leaf_family(code, counts):
            big = d["n"] > 300
            yield {"kind": "leaf", "desc": d, "forms": "min" if big else "all"}
    # all 256 single byte values and all pairs over the awkward alphabet, for text and binary
    for code in ("A", "J", "B"):
        for b in range(256):
            yield {"kind": "leaf", "desc": {"code": code, "vals": [b]}}
        awk = gen.boundary(code)[:16]
        for a in awk:
            for b in awk:
                yield {"kind": "leaf", "desc": {"code": code, "vals": [a, b]}}
    if thorough:
        # BOOLEAN is left out at this size: Boolean.encode appends to an immutable bytes object per element (quadratic, hours at 2^24)
        for code in ("B", "A", "J"):
            for n in (0xFFFFFF - 1, 0xFFFFFF):
                yield {"kind": "leaf", "desc": {"code": code, "n": n, "rot": 1}, "forms": "min"}
    # 2. every float exponent x boundary mantissas (bit patterns), finite only
    mant4 = [0, 1, 2, 0x400000, 0x7FFFFE, 0x7FFFFF]
    mant8 = [0, 1, 2, 1 << 51, (1 << 52) - 2, (1 << 52) - 1]
    exps4 = range(0, 255)
    exps8 = range(0, 2047)
    for sign in (0, 1):
        for e in exps4:
            yield {"kind": "leaf", "forms": "min", "desc": {"code": "F4", "bits": [(sign << 31) | (e << 23) | m for m in mant4]}}
        for e in exps8:
            yield {"kind": "leaf", "forms": "min", "desc": {"code": "F8", "bits": [(sign << 63) | (e << 52) | m for m in mant8]}}
    # 3. out-of-range / edge-of-range acceptance
    for code in gen.INT_CODES:
        lo, hi = e5.int_range(code)
        for v in (lo - 1, hi + 1, lo - 256, hi + 256, 2 * hi + 1):
            yield {"kind": "accept", "code": code, "value": v}
    flt_max, dbl_max = e5.FLT_MAX, e5.DBL_MAX
    f4_edges = [flt_max, -flt_max, 3.40282e38, -3.40282e38, 3.4028234e38, 3.4028235e38, math.nextafter(flt_max, math.inf),
                3.4028235677973366e38, math.nextafter(3.4028235677973366e38, math.inf), 3.5e38, 1e39, 0.1, 1e-46]
    for v in f4_edges:
        yield {"kind": "accept", "code": "F4", "value": v, "float_hex": float(v).hex()}
    for v in [dbl_max, -dbl_max, 1.79769e308, -1.79769e308, 1.7976931348623155e308, math.nextafter(dbl_max, 0), 5e-324]:
        yield {"kind": "accept", "code": "F8", "value": v, "float_hex": float(v).hex()}
    # 4. nested lists / arrays of everything
    if thorough:
        small = gen.LEAF_ALPHABET[:3]
        fam = gen.trees(2, 2) + gen.trees(3, 2, small) + gen.trees(2, 3, small)
    else:
        fam = gen.trees(2, 2)
    seen = set()
    for t in fam:
        r = repr(t)
        if r in seen:
            continue
        seen.add(r)
        yield {"kind": "tree", "desc": t}
    # every leaf type inside a list (decoded through the dynamic format-code table)
    for code in gen.LEAF_CODES:
        if code == "J":
            continue
        for n in (0, 1, 2):
            for rot in range(0, len(gen.boundary(code)), 3):
                yield {"kind": "tree", "desc": {"code": "L", "items": [{"code": code, "n": n, "rot": rot}, {"code": "U1", "vals": [9]}]}}
    # lists whose *element count* crosses a length-byte boundary, and deep nesting
    for n in (255, 256) + ((65535, 65536) if thorough else ()):
        yield {"kind": "tree", "desc": {"code": "L", "items": [{"code": "U1", "vals": [i % 256]} for i in range(n)]}}
    for depth in (8, 32) + ((200,) if thorough else ()):
        t = {"code": "U1", "vals": [1]}
        for _ in range(depth):
            t = {"code": "L", "items": [t]}
        yield {"kind": "tree", "desc": t}
    # 4b. every character U+0000..U+02FF, the halfwidth katakana block and the yen / overline signs as one-character str for A and J
    for code in ("A", "J"):
        for lo, hi in ((0, 0x300), (0xFF61, 0xFFA0), (0x203E, 0x203F), (0xA5, 0xA6)):
            yield {"kind": "chars", "code": code, "lo": lo, "hi": hi}
    # 4c. refused updates leave the object unchanged
    for target in ("MDLN", "String[4]", "Binary[2]", "U1", "I2[2]"):
        yield {"kind": "refused", "target": target}
    # 5. keyed records
    for rec in RECORDS[:3]:
        yield {"kind": "record", "name": rec[0]}
    for k in (0, 1, 2, 255, 256):
        for m in (0, 1, 3):
            yield {"kind": "record", "name": "nested", "k": k, "m": m}


def run(ctx):
    ctx.assumptions += [
        "reference codec /verif/ref/e5.py written from the E5 item format, independent of secsgem",
        "documented scalar collapse of get() (1-element numeric -> scalar, 1-byte binary -> int) adopted by the oracle",
        "F4 'equal' means equal after binary32 rounding; NaN/Inf excluded (E5 does not define them)",
        "value families are boundary sets (small-scope hypothesis), not all 2^64 integers",
    ]
    ctx.setcov("rule", "typed values from boundary sets (every type x boundary element counts x boundary values x input forms, "
                       "all single bytes for text/binary, every finite float exponent x boundary mantissas, all list trees up to "
                       "depth/branching bound); non-trivial = payload length on a length-byte boundary, <=3 elements at a value boundary, "
                       "out-of-range probe, or nesting depth >= 1")
    # thread-pair independence first (LINE events are switched off again before the enumeration)
    from checks import pair_ops  # noqa: PLC0415
    from mc import firstuse, pairs  # noqa: PLC0415

    # first use in a process before anything else touches the library (the workers must be pristine)
    fu_ops = [["enc", pair_ops.LEAVES[0]], ["dec", pair_ops.TREES[1], "ANYVALUE"]] + ([["dec", pair_ops.LEAVES[0], "ANYVALUE"]] if ctx.thorough else [])  # one forked child per execution (~16 executions/s): two operations in the quick tier
    firstuse.run_part(ctx, fu_ops, "C01", 2 if ctx.thorough else 1)
    ops = [["enc", d] for d in pair_ops.LEAVES + pair_ops.TREES[:1]]
    pair_execs = pairs.run_part(ctx, ops, "C01", 2 if ctx.thorough else 1)
    ctx.run_cases(check_case, cases(ctx), "c01", chunk=32)


def replay(ctx, detail):
    if isinstance(detail.get("case"), dict) and detail["case"].get("part") == "first-use":
        from mc import firstuse  # noqa: PLC0415

        firstuse.replay(ctx, detail["case"], "C01")
        return
    if isinstance(detail.get("case"), dict) and detail["case"].get("part") == "pair":
        from mc import pairs  # noqa: PLC0415

        pairs.replay_pair(ctx, detail["case"], "C01")
        return
    res = check_case(detail["case"])
    ctx.evaluations += 1
    for sig, d in res.get("v", ()):
        ctx.violation(sig, d)
