"""C10 - the TCP transport delivers every accepted byte exactly once and in order.

Shape S (fault enumeration): the real TcpServerConnection / TcpClientConnection (and HsmsProtocol's 1 MiB
packet split above it) write to a virtual socket whose answers are enumerated: at each select "writable" /
"not yet", at each send an accepted count in {all, 1, half, all-but-one} / EWOULDBLOCK / EPIPE, with at most
F deviations per execution.  Oracle: the bytes the peer received parse as the sent messages in order, each
complete if its send reported success, a (possibly empty) prefix if it reported failure.
"""
from __future__ import annotations

from mc import explore, loader, vrt

loader.install_shims()
from mc import vnet  # noqa: E402
from ref import e37  # noqa: E402

vrt.trace_spin_loops(vrt.SPIN_MODULES)

import secsgem.common  # noqa: E402
import secsgem.hsms  # noqa: E402

LEVEL = "fault_enumeration"
BUDGET = {"quick": 420, "thorough": 3000}

MIB = 1 << 20


def payload(i, n):
    return bytes(((j * 131 + i * 17 + (j >> 8)) & 0xFF) for j in range(n)) if n < 5000 else _big(i, n)


def _big(i, n):
    block = bytes(((j * 131 + i * 17) & 0xFF) for j in range(4093))
    reps = n // len(block) + 1
    return (block * reps)[:n]


def _placement(msgs, results, received, via):
    """None if `received` is msgs in order - complete where the send reported success, a prefix where it reported failure - else a description."""
    # parse received as x1 x2 ...: complete if its send reported success, a (possibly empty) prefix if it reported failure or raised;
    # through HsmsProtocol the endpoint may add control frames of its own after them (Separate.req when it sees the peer's FIN)
    def tail_ok(pos):
        rest = received[pos:]
        if not rest:
            return True
        if via != "proto":
            return False
        frames, left = e37.parse(rest)
        return not left and all(f["stype"] != 0 for f in frames)

    def match(i, pos):
        if i == len(msgs):
            return tail_ok(pos)
        m = msgs[i]
        if results[i] is True:
            return received[pos:pos + len(m)] == m and match(i + 1, pos + len(m))
        rest = received[pos:pos + len(m)]
        n = 0
        while n < len(rest) and rest[n] == m[n]:
            n += 1
        return any(match(i + 1, pos + k) for k in range(n, -1, -1))

    bad = None
    if not match(0, 0):
        # describe the first message that cannot be placed (greedy reading, for the report only)
        pos = 0
        for i, (m, ok) in enumerate(zip(msgs, results)):
            got = received[pos:pos + len(m)]
            if ok is True:
                if got != m:
                    kind = "truncated" if m.startswith(got) and len(got) < len(m) else ("corrupted" if len(got) == len(m) else "misplaced")
                    bad = (f"reported-success-but-{kind}", i, len(got), len(m))
                    break
                pos += len(m)
            else:
                n = 0
                while n < len(got) and got[n] == m[n]:
                    n += 1
                pos += n
        if bad is None:
            bad = ("extra-bytes-after-last-message", len(msgs), len(received) - pos, 0)
    # the documented contract of send_data / send_message is a bool: an exception is neither
    for i, ok in enumerate(results):
        if bad is None and not isinstance(ok, bool):
            bad = ("send-raised", i, str(ok)[:80], len(msgs[i]))
    return bad


def _is_linktest_prefix(buf):
    """buf is the first len(buf) <= 14 bytes of a Linktest.req frame (any system bytes)."""
    pat = bytes([0, 0, 0, 10, 0xFF, 0xFF, 0, 0, 0, 5])
    return len(buf) <= 14 and bytes(buf[:10]) == pat[:len(buf[:10])]


def _linktest_placements(received):
    """The endpoint's own Linktest.req - complete, or a prefix of it if that write failed - stands before or after the data message, never
    inside it: every reading of `received` with such a piece removed from the front or the back."""
    seen = set()
    for k in range(0, min(14, len(received)) + 1):
        for cand, piece in ((received[k:], received[:k]), (received[:len(received) - k], received[len(received) - k:])):
            if _is_linktest_prefix(piece) and cand not in seen:
                seen.add(cand)
                yield cand


def run_one(devs, budgets, sizes=None, mode="server", via="conn", fin=False, reconnect=False, late_read=False, linktest=False, twin=False, menu="full", packet=None):
    if twin:
        return run_twin(devs, budgets, sizes=sizes, via=via, menu=menu)
    box = {}

    def driver(s):
        k = vnet.kernel()
        active = mode == "client"
        settings = secsgem.hsms.HsmsSettings(
            connect_mode=secsgem.hsms.HsmsConnectMode.ACTIVE if active else secsgem.hsms.HsmsConnectMode.PASSIVE,
            address="10.0.0.1", port=5000)
        if via == "proto":
            proto = secsgem.hsms.HsmsProtocol(settings)
            if packet:
                proto.send_packet_size = packet  # the documented knob for the size of the pieces a block is handed to the connection in
            conn = proto._connection
            enable, disable = proto.enable, proto.disable
        else:
            proto = None
            conn = settings.create_connection()
            enable, disable = conn.enable, conn.disable
        if active:
            lst = vnet.peer_listen("10.0.0.1", 5000)
            enable()
            s.block(lambda: bool(lst.accept_queue), s.clock + 30, "wait client connect")
            peer = lst.accept_queue.popleft() if lst.accept_queue else None
        else:
            enable()
            s.block(lambda: ("10.0.0.1", 5000) in k.listeners and k.listeners[("10.0.0.1", 5000)].state == "listening", s.clock + 5, "wait listen")
            peer = vnet.peer_connect("10.0.0.1", 5000)
        if peer is None:
            box["harness"] = "could not connect"
            return
        s.block(lambda: conn.connected and getattr(conn, "_thread_running", True), s.clock + 5, "wait connected")
        s.settle()
        if via == "proto":
            # select first (the endpoint only needs to be connected to send raw messages; select makes it realistic)
            if active:
                peer.rx.clear()
        k.send_menu = True
        k.select_menu = True
        k.fin_menu = fin
        results = []
        base = len(peer.rx)
        msgs = []
        lt = None
        if linktest and proto is not None:
            # what the linktest timer thread does when it fires, here while the data message is being written
            lt = vrt.Thread(target=proto.send_linktest_req, name="linktest-timer")
            lt.start()
        for i, n in enumerate(sizes):
            if reconnect and i == len(sizes) - 1:
                # the peer drops the connection and comes back: the last message goes over the new connection of the same object
                k.send_menu = k.select_menu = False
                box["received_first"] = bytes(peer.rx[base:])
                peer.close()
                s.block(lambda: not conn.connected and ("10.0.0.1", 5000) in k.listeners and k.listeners[("10.0.0.1", 5000)].state == "listening",
                        s.clock + 30, "wait re-listen")
                peer = vnet.peer_connect("10.0.0.1", 5000)
                if peer is None:
                    box["harness"] = "could not reconnect"
                    return
                s.block(lambda: conn.connected and getattr(conn, "_thread_running", True), s.clock + 5, "wait connected again")
                s.settle()
                base = len(peer.rx)
                box["second_connection_from"] = i
                k.send_menu = k.select_menu = True
            if via == "proto":
                body = payload(i, n)
                hdr = secsgem.hsms.HsmsStreamFunctionHeader(0x100 + i, 9, 1, False, 0)
                m = secsgem.hsms.HsmsMessage(hdr, body)
                wire = b"".join(bytes(b.encode()) for b in m.blocks)
                msgs.append(wire)
                try:
                    ok = proto.send_message(m)
                except Exception as exc:  # noqa: BLE001
                    if isinstance(exc, vrt.Divergence):
                        raise
                    ok = f"raised {exc!r}"
            else:
                data = payload(i, n)
                msgs.append(data)
                try:
                    ok = conn.send_data(data)
                except Exception as exc:  # noqa: BLE001
                    if isinstance(exc, vrt.Divergence):
                        raise
                    ok = f"raised {exc!r}"
            results.append(ok)
        k.send_menu = False
        k.select_menu = False
        if lt is not None:
            lt.join()
        box["results"] = results
        box["msgs"] = msgs
        if late_read:
            # a slow peer with a small receive buffer: most of the data is still in this side's send buffer when it closes the connection,
            # and the peer reads only afterwards (everything reported as sent must still arrive: a graceful close delivers it)
            k.rcvbuf = 2
            disable()
            s.settle()
            box["received"] = bytes(peer.rx[base:])
            box["peer_reset"] = peer.was_reset
            peer.close()
        else:
            box["received"] = bytes(peer.rx[base:])
            peer.close()
            disable()

    sched = vrt.run(driver, devs, budgets, max_steps=300000, max_time=600.0, line_points=False)
    res = {"trace": sched.trace, "v": []}
    case = {"sizes": sizes, "mode": mode, "via": via, "fin": fin, "reconnect": reconnect, "late_read": late_read, "linktest": linktest, "packet": packet}
    if sched.harness_failure or sched.driver_exception or box.get("harness"):
        res["harness"] = (sched.harness_failure or sched.driver_exception or box.get("harness"))[-1000:]
        res["obs"] = None
        return res
    if "results" not in box:
        res["v"].append((f"C10|send-did-not-return|{sched.outcome}|{via}", {"case": case, "info": sched.deadlock_info}))
        res["obs"] = sched.outcome
        return res
    results, received, msgs = box["results"], box["received"], box["msgs"]
    if linktest:
        # any reading that places the data message is accepted; if none does, the plain reading is reported
        for cand in _linktest_placements(received):
            if _placement(msgs, results, cand, via) is None:
                received = cand
                break
    if reconnect and "second_connection_from" in box:
        # first connection: all but the last message; second connection: the last message only, nothing of the earlier ones
        j = box["second_connection_from"]
        first = _placement(msgs[:j], results[:j], box["received_first"], via)
        second = _placement(msgs[j:], results[j:], received, via)
        res["obs"] = {"results": [r if isinstance(r, bool) else "raised" for r in results], "received": [len(box["received_first"]), len(received)]}
        for label, bad in (("first-connection", first), ("second-connection", second)):
            if bad is not None:
                res["v"].append((f"C10|reconnect|{label}|{bad[0]}|{via}", {"case": case, "message": bad[1], "got_len": bad[2], "want_len": bad[3],
                                                                           "results": [str(r) for r in results]}))
        if sched.outcome != "done":
            res["v"].append((f"C10|execution-{sched.outcome}|{via}", {"case": case, "info": sched.deadlock_info}))
        return res
    faults = [t[2] for t in sched.trace if t[0] == "env"]
    res["obs"] = {"results": [r if isinstance(r, bool) else "raised" for r in results], "received": len(received)}
    bad = _placement(msgs, results, received, via)
    if bad is not None:
        szclass = "big" if max(sizes) >= MIB else "small"
        res["v"].append((f"C10|{bad[0]}|{via}|{szclass}|faults={len([f for f in faults if f])}", {"case": case, "message": bad[1], "got_len": bad[2], "want_len": bad[3],
                                                                                                 "results": [str(r) for r in results], "received_len": len(received)}))
    if sched.outcome != "done":
        res["v"].append((f"C10|execution-{sched.outcome}|{via}", {"case": case, "info": sched.deadlock_info}))
    return res


def run_twin(devs, budgets, sizes=None, via="proto", menu="full"):
    """The peer drops connection 1 and comes back at once; over connection 2 two application threads send one message each while the
    socket takes them in pieces.  Scheduling delays are offered from the moment the peer drops connection 1 (the threads of the old
    connection are still winding down when the new one is set up), environment answers during the two sends.  Whatever thread of the
    library writes, each message reported as sent must stand in the stream in one piece (either order)."""
    box = {}

    def driver(s):
        k = vnet.kernel()
        s.frozen = True
        settings = secsgem.hsms.HsmsSettings(connect_mode=secsgem.hsms.HsmsConnectMode.PASSIVE, address="10.0.0.1", port=5000)
        proto = secsgem.hsms.HsmsProtocol(settings)
        conn = proto._connection
        proto.enable()
        s.block(lambda: ("10.0.0.1", 5000) in k.listeners and k.listeners[("10.0.0.1", 5000)].state == "listening", s.clock + 5, "wait listen")
        peer = vnet.peer_connect("10.0.0.1", 5000)
        if peer is None:
            box["harness"] = "could not connect"
            return
        s.block(lambda: conn.connected and getattr(conn, "_thread_running", True), s.clock + 5, "wait connected")
        s.settle()
        s.frozen = False
        peer.close()
        s.block(lambda: not conn.connected and ("10.0.0.1", 5000) in k.listeners and k.listeners[("10.0.0.1", 5000)].state == "listening",
                s.clock + 30, "wait re-listen")
        peer = vnet.peer_connect("10.0.0.1", 5000)
        if peer is None:
            box["harness"] = "could not reconnect"
            return
        s.block(lambda: conn.connected and getattr(conn, "_thread_running", True), s.clock + 5, "wait connected again")
        # the session of the new connection exists (what was queued before that belongs to no connection and is failed by the library)
        s.block(lambda: proto.connection_state.current.name != "NOT_CONNECTED", s.clock + 5, "wait session")
        base = len(peer.rx)
        k.send_menu = True
        k.select_menu = True
        if menu == "short":
            k.send_opts = ("all", "one")  # every send call takes everything or a single byte (select may still answer "not writable yet")
        msgs, results = [], [None] * len(sizes)
        for i, n in enumerate(sizes):
            hdr = secsgem.hsms.HsmsStreamFunctionHeader(0x100 + i, 9, 1, False, 0)
            m = secsgem.hsms.HsmsMessage(hdr, payload(i, n))
            msgs.append((m, b"".join(bytes(b.encode()) for b in m.blocks)))

        def send(i):
            try:
                results[i] = proto.send_message(msgs[i][0])
            except Exception as exc:  # noqa: BLE001
                if isinstance(exc, vrt.Divergence):
                    raise
                results[i] = f"raised {exc!r}"

        others = [vrt.Thread(target=send, args=(i,), name=f"app-sender-{i}") for i in range(1, len(sizes))]
        for t in others:
            t.start()
        send(0)
        for t in others:
            t.join()
        k.send_menu = False
        k.select_menu = False
        s.settle()
        box["results"] = results
        box["msgs"] = [w for _m, w in msgs]
        box["received"] = bytes(peer.rx[base:])
        peer.close()
        proto.disable()

    sched = vrt.run(driver, devs, budgets, max_steps=300000, max_time=600.0, line_points=False)
    res = {"trace": sched.trace, "v": []}
    case = {"sizes": sizes, "mode": "server", "via": via, "twin": True, "menu": menu}
    if sched.harness_failure or sched.driver_exception or box.get("harness"):
        res["harness"] = (sched.harness_failure or sched.driver_exception or box.get("harness"))[-1000:]
        res["obs"] = None
        return res
    if "results" not in box:
        res["v"].append((f"C10|twin|send-did-not-return|{sched.outcome}", {"case": case, "info": sched.deadlock_info}))
        res["obs"] = sched.outcome
        return res
    results, received, msgs = box["results"], box["received"], box["msgs"]
    import itertools  # noqa: PLC0415

    bad = None
    for order in itertools.permutations(range(len(msgs))):
        bad = _placement([msgs[i] for i in order], [results[i] for i in order], received, via)
        if bad is None:
            break
    res["obs"] = {"results": [r if isinstance(r, bool) else "raised" for r in results], "received": len(received)}
    if bad is not None:
        res["v"].append((f"C10|twin|{bad[0]}", {"case": case, "results": [str(r) for r in results], "received": received.hex()[:400],
                                                "messages": [m.hex() for m in msgs]}))
    if sched.outcome != "done":
        res["v"].append((f"C10|twin|execution-{sched.outcome}", {"case": case, "info": sched.deadlock_info}))
    return res


def configs(thorough):
    out = []
    for sizes in ([1], [2], [3], [17], [3, 17], [17, 1], [2, 2]):
        out.append({"sizes": sizes, "mode": "server", "via": "conn"})
    out.append({"sizes": [17, 5], "mode": "client", "via": "conn"})
    out.append({"sizes": [3], "mode": "server", "via": "proto"})
    out.append({"sizes": [MIB - 14], "mode": "server", "via": "proto"})  # frame exactly 1 MiB
    out.append({"sizes": [MIB - 13], "mode": "server", "via": "proto"})  # 1 MiB + 1
    out.append({"sizes": [2 * MIB - 14], "mode": "server", "via": "proto"})  # frame exactly 2 packets
    # the same split with 8-byte packets: frames of exactly 2, 3 and 4 packets, one byte less, one byte more, and two messages in a row
    for sizes in ([2], [10], [18], [1], [3], [11], [2, 10]):
        out.append({"sizes": sizes, "mode": "server", "via": "proto", "packet": 8})
    if thorough:
        out.append({"sizes": [2 * MIB + 5], "mode": "server", "via": "proto"})
        out.append({"sizes": [MIB, 7], "mode": "client", "via": "proto"})
        out.append({"sizes": [MIB + 1], "mode": "server", "via": "conn"})
    return out


def run(ctx):
    ctx.assumptions += [
        "the kernel is a model (mc/vnet.py): send may accept all / 1 / half / all-but-one bytes or fail with EWOULDBLOCK / EPIPE, select may "
        "report 'not writable'; at most F such deviations per execution; mc/vnet_conformance.py shows on real loopback sockets that short "
        "writes and EWOULDBLOCK do occur for messages above the socket buffer",
        "message contents are position-dependent byte patterns so that loss, duplication and reordering are visible",
    ]
    f = 3 if ctx.thorough else 2
    tot_exec = 0
    nontrivial = 0
    parts = []
    for cfg in configs(ctx.thorough):
        st = explore.explore(ctx, run_one, {"env": f, "sched": 0}, f"c10-{cfg['via']}-{cfg['mode']}-{cfg['sizes']}", opts=cfg, chunk=8)
        parts.append({"cfg": cfg, "executions": st["executions"], "outcomes": st["distinct_outcomes"], "levels_completed": st["levels_completed"]})
        tot_exec += st["executions"]
        nontrivial += st["executions"] - 1
        if st["levels_completed"] < f:
            ctx.exhaustive = False
        if ctx.out_of_time():
            break
    # the peer half-closes in the middle of a send (FIN while the rest of the message is still to be written): env deviations x one delay
    for cfg in ({"sizes": [17], "mode": "server", "via": "conn", "fin": True}, {"sizes": [17, 3], "mode": "client", "via": "conn", "fin": True},
                {"sizes": [3], "mode": "server", "via": "proto", "fin": True}):
        st = explore.explore(ctx, run_one, {"env": 2, "sched": 1}, f"c10-fin-{cfg['via']}-{cfg['mode']}-{cfg['sizes']}", opts=cfg, chunk=8)
        parts.append({"cfg": cfg, "budgets": {"env": 2, "sched": 1}, "executions": st["executions"], "outcomes": st["distinct_outcomes"],
                      "levels_completed": st["levels_completed"]})
        tot_exec += st["executions"]
        nontrivial += st["executions"] - 1
    # the linktest timer fires while a data message is being written in pieces (short writes): a second thread that wants to write
    for cfg in ({"sizes": [17], "mode": "server", "via": "proto", "linktest": True},):
        st = explore.explore(ctx, run_one, {"env": 2, "sched": 2}, f"c10-linktest-{cfg['sizes']}", opts=cfg, chunk=8)
        parts.append({"cfg": cfg, "budgets": {"env": 2, "sched": 2}, "executions": st["executions"], "outcomes": st["distinct_outcomes"],
                      "levels_completed": st["levels_completed"]})
        tot_exec += st["executions"]
        nontrivial += st["executions"] - 1
    # a slow peer that reads only after this side closed the connection (graceful close keeps what was accepted; an abortive one would not)
    for cfg in ({"sizes": [17, 3], "mode": "server", "via": "conn", "late_read": True}, {"sizes": [17], "mode": "client", "via": "conn", "late_read": True},
                {"sizes": [5], "mode": "server", "via": "proto", "late_read": True}):
        st = explore.explore(ctx, run_one, {"env": 1, "sched": 0}, f"c10-late-read-{cfg['via']}-{cfg['mode']}", opts=cfg, chunk=8)
        parts.append({"cfg": cfg, "executions": st["executions"], "outcomes": st["distinct_outcomes"], "levels_completed": st["levels_completed"]})
        tot_exec += st["executions"]
        nontrivial += st["executions"] - 1
    # a failed (or successful) send, then the peer reconnects and the next send goes over the new connection of the same object
    for cfg in ({"sizes": [17, 5], "mode": "server", "via": "conn", "reconnect": True}, {"sizes": [3, 4], "mode": "server", "via": "proto", "reconnect": True}):
        st = explore.explore(ctx, run_one, {"env": f, "sched": 0}, f"c10-reconnect-{cfg['via']}-{cfg['sizes']}", opts=cfg, chunk=8)
        parts.append({"cfg": cfg, "executions": st["executions"], "outcomes": st["distinct_outcomes"], "levels_completed": st["levels_completed"]})
        tot_exec += st["executions"]
        nontrivial += st["executions"] - 1
    # the peer comes back while the threads of the old connection wind down, then two application threads send over the new connection
    twins = [({"sizes": [17, 9], "via": "proto", "twin": True, "menu": "short"}, {"env": 2, "sched": 2})]
    if ctx.thorough:
        twins += [({"sizes": [17, 9], "via": "proto", "twin": True, "menu": "full"}, {"env": 2, "sched": 2}),
                  ({"sizes": [17, 9], "via": "proto", "twin": True, "menu": "short"}, {"env": 2, "sched": 3})]
    for cfg, bud in twins:
        st = explore.explore(ctx, run_one, bud, f"c10-twin-{cfg['sizes']}", opts=cfg, chunk=8)
        parts.append({"cfg": cfg, "budgets": bud, "executions": st["executions"], "outcomes": st["distinct_outcomes"],
                      "levels_completed": st["levels_completed"]})
        tot_exec += st["executions"]
        nontrivial += st["executions"] - 1
        if st["levels_completed"] < sum(bud.values()):
            ctx.exhaustive = False
    ctx.setcov("evaluations", tot_exec)
    ctx.setcov("distinct_nontrivial", nontrivial)
    ctx.setcov("rule", "each execution = one assignment of environment answers (<= F deviations from 'everything accepted at once') to the "
                       "select/send calls of one configuration (message sizes 1..2 MiB+5, 1-2 sends, server/client, raw connection or through "
                       "HsmsProtocol's packet split); non-trivial = at least one deviation (short write, would-block, broken pipe, not writable)")
    ctx.setcov("fault_bound", f)
    ctx.setcov("parts", parts)
    ctx.sample({"config": parts[0]["cfg"], "executions": parts[0]["executions"]})


def replay(ctx, detail):
    case = detail["case"]
    devs = {int(k): v for k, v in case.get("devs", {}).items()}
    r = run_one(devs, case.get("budgets", {}), sizes=case["sizes"], mode=case["mode"], via=case["via"], fin=case.get("fin", False),
                reconnect=case.get("reconnect", False), late_read=case.get("late_read", False), linktest=case.get("linktest", False), twin=case.get("twin", False), menu=case.get("menu", "full"), packet=case.get("packet"))
    print("replayed:", r.get("obs"))
    ctx.evaluations += 1
    for sig, d in r["v"]:
        ctx.violation(sig, d)
