"""C19 - function structure definitions (SFDL) are read exactly as documented.

Shape E: every definition tree up to a depth/width bound over the catalogue's data item names, with optional
list names, rendered in four whitespace styles and with a comment inserted at every token gap; the shape
(record / open array / item), key order and key names of functions.generate(text) are compared with an
independent reader of the documented rules (ref/sfdl.py).  Mutations: every closing bracket deleted in
turn, every item name replaced by an unknown one - all must be rejected.  Plus the 134 shipped definitions.
"""
from __future__ import annotations

import itertools

from mc import loader
from ref import sfdl

loader.load()
import secsgem.secs.variables as V  # noqa: E402,N812
from secsgem.secs.variables import functions as vfunctions  # noqa: E402

LEVEL = "exploration"
BUDGET = {"quick": 300, "thorough": 2400}

ITEMS = ["SVID", "MDLN", "ACKC6", "V"]


def observe(var):
    """Shape of a generated variable through its public structure."""
    if isinstance(var, V.Array):
        # an array builds every element from its kept description: the second element must have the shape of the first
        first = observe(vfunctions.generate(var.item_decriptor))
        second = observe(vfunctions.generate(var.item_decriptor))
        if first != second:
            return ("array-whose-second-element-differs-from-its-first", first, second)
        return ("array", first)
    if isinstance(var, V.List):
        return ("record", [(k, observe(v)) for k, v in var.data.items()])
    return ("item", type(var).__name__)


def describe(tree):
    if tree[0] == "item":
        return "I"
    return ("N" if tree[1] else "L") + "(" + ",".join(describe(c) for c in tree[2]) + ")"


def classify(tree):
    """Coarse class of the definition for violation signatures: named/unnamed x single/multi x child kinds, at the first deviation."""
    return describe(tree) if len(describe(tree)) <= 24 else describe(tree)[:24] + "..."


def first_difference(want, got, path="root"):
    if want[0] != got[0]:
        return f"{path}:{want[0]}-expected-{got[0]}-found"
    if want[0] == "item":
        return None if want[1] == got[1] else f"{path}:item-class"
    if want[0] == "array":
        return first_difference(want[1], got[1], path + "/[]")
    wk = [k for k, _ in want[1]]
    gk = [k for k, _ in got[1]]
    if wk != gk:
        return f"{path}:keys"
    for (k, w), (_k, g) in zip(want[1], got[1]):
        d = first_difference(w, g, path + "/" + ("*" if k in ITEMS else k))
        if d:
            return d
    return None


def abstract_path(diff):
    # drop concrete key names so that one defect has one signature
    parts = diff.split(":")
    return "|".join(p if i else "/".join("k" if x not in ("root", "[]", "*") else x for x in p.split("/")) for i, p in enumerate(parts))


def check_tree(case):
    tree = to_tree(case["tree"])
    want = sfdl.shape(tree)
    out = []
    n = 0
    for style in case.get("styles", [0, 1]):
        text = sfdl.render(tree, style)
        texts = [(f"style{style}", text)]
        if case.get("comments") and style == 0:
            lines = text.split("\n")
            for i in range(len(lines)):
                texts.append(("comment", "\n".join(lines[:i] + [lines[i] + "  # a comment < L > <"] + lines[i + 1:])))
                if i + 1 < len(lines):
                    # the same comment, but the line break that ends it comes one line later: the comment swallows the next line.
                    # Read right after the text above (equal up to white space), it is another definition - or none at all.
                    texts.append(("comment-swallows-line", "\n".join(lines[:i] + [lines[i] + "  # a comment < L > < " + lines[i + 1].strip()] + lines[i + 2:])))
        for tag, txt in texts:
            n += 1
            want_here = want
            if tag == "comment-swallows-line":
                rest = parse_text(txt, want_status=True)
                if rest is None:
                    continue  # text after the first complete item, or not an item at all: nothing is documented about it
                if rest == "unclosed":  # the text ends inside an item
                    try:
                        var = vfunctions.generate(txt)
                    except Exception:  # noqa: BLE001
                        continue
                    out.append(("C19|broken-definition-accepted|comment-swallows-closing-bracket", {"case": case, "text": txt, "result": repr(observe(var))[:200]}))
                    continue
                if not _documented_form(rest):
                    continue
                want_here = sfdl.shape(rest)
            try:
                var = vfunctions.generate(txt)
                got = observe(var)
            except Exception as exc:  # noqa: BLE001
                out.append((f"C19|valid-definition-rejected|{tag.rstrip('0123')}|{classify(tree)}", {"case": case, "text": txt, "error": repr(exc)[:300]}))
                continue
            diff = first_difference(want_here, got)
            if diff:
                out.append((f"C19|shape-differs|{abstract_path(diff)}|{classify(tree)}", {"case": case, "text": txt, "want": want, "got": got}))
    return {"v": out, "nt": tree[0] == "list", "cnt": {"texts": n}}


def _documented_form(tree, top=True):
    """The forms the enumeration itself generates: no empty list, no unnamed list around a single named list, distinct keys."""
    if tree[0] == "item":
        return True
    _l, name, children = tree
    if not children:
        return False
    if name is None and len(children) == 1 and children[0][0] == "list" and children[0][1] is not None:
        return False
    if top and not sfdl.keys_distinct(tree):
        return False
    return all(_documented_form(c, False) for c in children)


def check_mutations(case):
    tree = to_tree(case["tree"])
    toks = sfdl.tokens(tree)
    out = []
    n = 0
    for i, t in enumerate(toks):
        muts = []
        if t == ">":
            muts.append(("missing-closing-bracket", toks[:i] + toks[i + 1:]))
            # the closing bracket replaced by something that is not one (the text then has an unclosed item whatever follows)
            muts.append(("closing-bracket-replaced-by-open", toks[:i] + ["<"] + toks[i + 1:]))
        elif t in ITEMS:
            muts.append(("unknown-item-name", toks[:i] + ["NOSUCHITEM"] + toks[i + 1:]))
        for kind, m in muts:
            n += 1
            text = " ".join(m)
            try:
                var = vfunctions.generate(text)
            except Exception:  # noqa: BLE001
                continue
            pos = "last" if i == len(toks) - 1 else "inner"
            out.append((f"C19|broken-definition-accepted|{kind}|{pos}", {"case": case, "text": text, "result": repr(observe(var))[:200]}))
    return {"v": out, "nt": True, "cnt": {"texts": n}}


def check_shipped(case):
    """The shipped definition of one function: generate(text) must have the documented shape."""
    import secsgem.secs.functions as F  # noqa: PLC0415,N812

    cls = getattr(F, case["cls"])
    text = cls._data_format
    if not isinstance(text, str):
        return {"v": [], "nt": False}
    tree = parse_text(text)
    if tree is None:
        return {"v": [], "nt": False, "cnt": {"shipped_unparsed_by_reference": 1}}
    want = sfdl.shape(tree)
    try:
        got = observe(vfunctions.generate(text))
    except Exception as exc:  # noqa: BLE001
        return {"v": [(f"C19|shipped-definition-rejected|{case['cls']}", {"case": case, "error": repr(exc)})], "nt": True}
    diff = first_difference(want, got)
    if diff and sfdl.keys_distinct(tree):
        return {"v": [(f"C19|shipped-shape-differs|{case['cls']}|{abstract_path(diff)}", {"case": case, "want": want, "got": got})], "nt": True}
    return {"v": [], "nt": True}


def parse_text(text, want_status=False):
    """Reference parse of a shipped definition text -> tree (comments stripped)."""
    lines = [ln.split("#", 1)[0] for ln in text.splitlines()]
    toks = " ".join(lines).replace("<", " < ").replace(">", " > ").split()
    pos = 0

    def item():
        nonlocal pos
        if toks[pos] != "<":
            raise ValueError
        pos += 1
        name = toks[pos]
        pos += 1
        if name != "L":
            if toks[pos] != ">":
                raise ValueError
            pos += 1
            return ("item", name)
        lname = None
        if toks[pos] not in "<>":
            lname = toks[pos]
            pos += 1
        children = []
        while toks[pos] != ">":
            children.append(item())
        pos += 1
        return ("list", lname, children)

    try:
        t = item()
        return t if pos == len(toks) else None
    except IndexError:
        return "unclosed" if want_status else None
    except ValueError:
        return None


def to_tree(j):
    if j[0] == "item":
        return ("item", j[1])
    return ("list", j[1], [to_tree(c) for c in j[2]])


def gen_trees(thorough):
    items = [("item", n) for n in ITEMS]
    for it in items:
        yield it
    # depth 1: every list of 1..3 items, unnamed and named
    d1 = []
    for w in (1, 2, 3):
        for combo in itertools.product(items, repeat=w):
            # (a name is used as the key exactly as written: one all-capitals, one with lower-case letters and a digit)
            for name in (None, "NAMEA") + (("Name_b2",) if w <= 2 else ()):
                d1.append(("list", name, list(combo)))
    yield from d1
    # names that coincide with words the library uses itself (the default key of an unnamed array, ...): a name is a name
    for name in ("DATA", "Data", "NAME", "VALUE"):
        for w in (1, 2):
            for combo in itertools.product(items[:3], repeat=w):
                yield ("list", name, list(combo))
                yield ("list", None, [items[3], ("list", name, list(combo))])
                yield ("list", "OUTER", [("list", name, list(combo)), items[3]])
        yield ("list", None, [items[0], ("list", name, [("list", "RPT", [items[1], items[2]])])])
        yield ("list", name, [("list", "RPT", [items[1], items[2]])])
    # representative depth-1 lists used as children
    rep_items = items[:2]
    rep1 = []
    for w in (1, 2):
        for combo in itertools.product(rep_items, repeat=w):
            for name in (None, "NM"):
                rep1.append(("list", name, list(combo)))
    pool2 = items + rep1
    d2 = []
    for w in (1, 2, 3):
        for combo in itertools.product(pool2, repeat=w):
            if not any(c[0] == "list" for c in combo):
                continue
            combo = [(_rename(c, i) if c[0] == "list" else c) for i, c in enumerate(combo)]
            for name in (None, "OUTER"):
                d2.append(("list", name, combo))
    yield from d2
    # depth 3: children from items(2) + a slice of depth-2 lists
    step = 7 if thorough else 41
    rep2 = d2[::step]
    pool3 = rep_items + rep2
    for w in (1, 2):
        for combo in itertools.product(pool3, repeat=w):
            if not any(c[0] == "list" and any(g[0] == "list" for g in c[2]) for c in combo):
                continue
            combo = [(_rename(c, i, "T") if c[0] == "list" else c) for i, c in enumerate(combo)]
            for name in (None, "TOP"):
                yield ("list", name, combo)


def undocumented_naming(tree):
    """An unnamed list whose only member is a *named* list: the documentation only shows the outer list being named."""
    if tree[0] == "item":
        return False
    _, name, children = tree
    if not name and len(children) == 1 and children[0][0] == "list" and children[0][1]:
        return True
    return any(undocumented_naming(c) for c in children)


def _rename(lst, i, prefix="NM"):
    """Give sibling named lists distinct names."""
    if lst[1]:
        # every second sibling gets a name with lower-case letters: a name is the key exactly as written
        return ("list", f"{lst[1]}{prefix if i % 2 == 0 else prefix.capitalize() + '_x'}{i}", lst[2])
    return lst


def cases(ctx):
    thorough = ctx.thorough
    seen = set()
    k = 0
    for tree in gen_trees(thorough):
        if not sfdl.keys_distinct(tree) or undocumented_naming(tree):
            continue
        r = repr(tree)
        if r in seen:
            continue
        seen.add(r)
        k += 1
        styles = [0, 1, 2, 3] if (thorough or k % 5 == 0) else [k % 2, 2 + k % 2]
        yield {"kind": "tree", "tree": tree, "styles": styles, "comments": thorough or k % 9 == 0}
        if tree[0] == "list" and (thorough or k % 3 == 0):
            yield {"kind": "mut", "tree": tree}
    import secsgem.secs.functions as F  # noqa: PLC0415,N812

    for name in sorted(dir(F)):
        if name.startswith("SecsS") and name[5:7].isdigit():
            yield {"kind": "shipped", "cls": name}


def check_case(case):
    return {"tree": check_tree, "mut": check_mutations, "shipped": check_shipped}[case["kind"]](case)


def run(ctx):
    ctx.assumptions += [
        "documented rules read from docs/firststeps/sfdl.md: several members -> keyed record, one member -> open array, key = item name / "
        "list name / nested single item's name / DATA; sibling keys are kept distinct (the documentation is silent on duplicates)",
        "comments are inserted after white space at the end of a line (the documented style); empty lists and text after the final '>' are not generated",
        "any exception type counts as rejection",
        "an unnamed list whose only member is a named list is not generated (the documentation only shows naming the outer list)",
    ]
    ctx.setcov("rule", "all definition trees up to depth 3 / width 3 (bounded child pools, see gen_trees) over {SVID, MDLN, ACKC6, V} with optional "
                       "names, 2-4 whitespace styles each, comment at every line end; every closing bracket deleted / item renamed; the shipped "
                       "definitions; non-trivial = definition containing at least one list, or a mutation case")
    # thread-pair independence first (LINE events are switched off again before the enumeration)
    from checks import pair_ops  # noqa: PLC0415
    from mc import firstuse, pairs  # noqa: PLC0415

    # first use in a process before anything else touches the library (the workers must be pristine)
    fu_ops = [["gen", "< L < MDLN > < SOFTREV > >"], ["gen", "< L RPT < L < RPTID > < L V < V > > > >"]]
    if ctx.thorough:  # one forked child per execution: too slow for the quick tier of this check
        firstuse.run_part(ctx, fu_ops, "C19", 1)
    ops = [["gen", t] for t in ("< L < MDLN > < SOFTREV > >", "< L < SVID > >", "< L RPT < L < RPTID > < L V < V > > > >", "< CEID >", "< L < DATAID > < CEID > < L RPT < L < RPTID > < L < V > > > > >")]
    pair_execs = pairs.run_part(ctx, ops, "C19", 1)  # (two delays over these long operations cost more than the whole enumeration)
    ctx.run_cases(check_case, cases(ctx), "c19", chunk=32)


def replay(ctx, detail):
    if isinstance(detail.get("case"), dict) and detail["case"].get("part") == "first-use":
        from mc import firstuse  # noqa: PLC0415

        firstuse.replay(ctx, detail["case"], "C19")
        return
    if isinstance(detail.get("case"), dict) and detail["case"].get("part") == "pair":
        from mc import pairs  # noqa: PLC0415

        pairs.replay_pair(ctx, detail["case"], "C19")
        return
    res = check_case(detail["case"])
    ctx.evaluations += 1
    for sig, d in res.get("v", ()):
        ctx.violation(sig, d)
