"""Operation alphabet for the thread-pair independence parts of the E-shape checks (mc/pairs.py).

An operation is a JSON list [kind, ...]; resolve(desc) returns a zero-argument callable that performs it on objects of
its own (nothing is shared with the other thread) and returns a JSON-able observation.
"""
from __future__ import annotations

from checks import common_e5 as ce
from mc import gen
from ref import e5

from secsgem.secs import variables as V  # noqa: E402,N812


def _val(x):
    if isinstance(x, (bytes, bytearray)):
        return ["bytes", bytes(x).hex()]
    if isinstance(x, (list, tuple)):
        return [_val(y) for y in x]
    if isinstance(x, dict):
        return {str(k): _val(v) for k, v in x.items()}
    if isinstance(x, float):
        return ["float", x.hex()]
    if isinstance(x, (bool, int, str, type(None))):
        return x
    g = getattr(x, "get", None)
    return _val(g()) if callable(g) else repr(x)[:80]


SHARED = {}


def fresh():
    """Objects that threads share by design, created anew for every execution: the catalogue container of a settings object."""
    import secsgem.secs.functions  # noqa: PLC0415

    SHARED["sf"] = secsgem.secs.functions.StreamsFunctions()


def resolve(desc):
    kind = desc[0]
    if kind == "lookup_shared":  # look-ups and decodes through ONE container, as the protocol threads of one handler do
        import secsgem.hsms  # noqa: PLC0415

        if "sf" not in SHARED:
            fresh()
        sf = SHARED["sf"]
        pairs_ = desc[1]

        def f():
            out = []
            for st, fn in pairs_:
                cls = sf.function(st, fn)
                out.append(None if cls is None else cls.__name__)
                header = secsgem.hsms.HsmsStreamFunctionHeader(1, st, fn, False, 0)
                try:
                    out.append(type(sf.decode(secsgem.hsms.HsmsMessage(header, b""))).__name__)
                except Exception as exc:  # noqa: BLE001
                    out.append(type(exc).__name__)
            return out
        return f
    if kind == "enc":  # variables API: build a typed value and encode it
        node = gen.node_from_desc(desc[1])

        def f():
            return ce.build_var(node).encode().hex()
        return f
    if kind == "dec":  # variables API: decode reference bytes into a fresh typed object / ANYVALUE
        node = gen.node_from_desc(desc[1])
        data = e5.enc(node)
        target = desc[2]

        def f():
            obj = ce.anyvalue()() if target == "ANYVALUE" or node[0] == "L" else ce.VCLASS[node[0]]()
            pos = obj.decode(data, 0)
            return [pos, _val(obj.get()), obj.encode().hex()]
        return f
    if kind == "item":  # Item API: build, encode, decode back
        from checks import c14  # noqa: PLC0415

        node = gen.node_from_desc(desc[1])

        def f():
            item = c14.build_item(node)
            raw = bytes(item.encode())
            back = c14.item_mod().decode(raw)
            return [raw.hex(), type(back).__name__, bytes(back.encode()).hex()]
        return f
    if kind.startswith("fu_item"):  # first use of the Item API: only secsgem.secs.item itself is imported by the operation
        arg = desc[1]

        def f():
            from secsgem.secs.item import Item  # noqa: PLC0415

            if kind == "fu_item_decode":
                back = Item.decode(bytes.fromhex(arg))
            elif kind == "fu_item_sml":
                back = Item.from_sml(arg)
            else:
                back = Item.from_value(arg)
            return [type(back).__name__, bytes(back.encode()).hex(), back.to_sml()]
        return f
    if kind == "from_value":
        from checks import c14  # noqa: PLC0415

        value = desc[1]

        def f():
            item = c14.item_mod().from_value(value)
            return [type(item).__name__, bytes(item.encode()).hex()]
        return f
    if kind == "sml":  # SML: item -> text -> item
        from checks import c14  # noqa: PLC0415

        node = gen.node_from_desc(desc[1])

        def f():
            item = c14.build_item(node)
            text = item.to_sml()
            back = c14.item_mod().from_sml(text)
            return [text, type(back).__name__, bytes(back.encode()).hex()]
        return f
    if kind == "sml_text":
        from checks import c14  # noqa: PLC0415

        text = desc[1]

        def f():
            back = c14.item_mod().from_sml(text)
            return [type(back).__name__, bytes(back.encode()).hex()]
        return f
    if kind == "fn":  # stream/function: construct with its default conforming value, encode, look up by S/F, decode
        import secsgem.hsms  # noqa: PLC0415
        import secsgem.secs.functions as F  # noqa: PLC0415,N812
        from checks import c03, c19  # noqa: PLC0415

        cls = getattr(F, desc[1])
        tree = c19.parse_text(cls._data_format) if isinstance(cls._data_format, str) else None
        plain = bool(desc[2]) if len(desc) > 2 else False

        def f():
            if tree is None:
                obj = cls()
            else:
                spec = c03.default_spec(tree)
                obj = cls(c03.to_input(spec, plain and c03.plain_ok(spec)))
            body = obj.encode()
            header = secsgem.hsms.HsmsStreamFunctionHeader(77, cls._stream, cls._function, cls._is_reply_required, 0)
            back = secsgem.secs.functions.StreamsFunctions().decode(secsgem.hsms.HsmsMessage(header, body))
            return [bytes(body).hex(), type(back).__name__, _val(back.get())]
        return f
    if kind == "gen":  # SFDL: read a definition text, observe its shape
        from checks import c19  # noqa: PLC0415
        from secsgem.secs.variables import functions as vfunctions  # noqa: PLC0415

        text = desc[1]

        def f():
            return _val(c19.observe(vfunctions.generate(text)))
        return f
    raise ValueError(kind)


# small, deliberately heterogeneous alphabets (different types, sizes and nesting so that a shared buffer or cursor shows)
LEAVES = [
    {"code": "U4", "vals": [0x01020304, 7]},
    {"code": "I2", "vals": [-2, 300, 5]},
    {"code": "F8", "vals": [1.5]},
    {"code": "A", "vals": [0x68, 0x69, 0x21]},
    {"code": "B", "vals": [0xDE, 0xAD]},
    {"code": "BOOLEAN", "vals": [1, 0]},
]
TREES = [
    {"code": "L", "items": [{"code": "U1", "vals": [11]}, {"code": "U1", "vals": [22]}, {"code": "U2", "vals": [8482]}]},
    {"code": "L", "items": [{"code": "A", "vals": [0x78]}, {"code": "L", "items": [{"code": "I4", "vals": [-5]}]}]},
]
