"""C12 - the event-report configuration stays consistent and transactional under any history.

Shape H: history BFS over S2F33 / S2F35 / S2F37 requests (define, delete-one, delete-all, link, unlink,
duplicates inside one request, unknown ids) and variable updates on a real GemEquipmentHandler; after every
step S6F15 is requested and a trigger is fired for every CEID of the domain and the replies are decoded
by the reference codec and compared with a reference table model.
"""
from __future__ import annotations

from checks import gem_harness as gh
from mc import hbfs, vrt
from ref import e5, e37

LEVEL = "model_checking"
BUDGET = {"quick": 420, "thorough": 3000}

SV, DV, VID_UNKNOWN = 10, 30, 99
CEIDS = [1, 2, 77]


def u(n):
    return ("U4", [n])


def rid(r):
    """Report ids are numbers or text (E5 RPTID: A or an integer format); the text id "1" and the number 1 are different reports."""
    return ("A", r.encode()) if isinstance(r, str) else u(r)


def s2f33(defs):
    return e5.enc(("L", [u(7), ("L", [("L", [rid(r), ("L", [u(v) for v in vids])]) for r, vids in defs])]))


def s2f35(links):
    return e5.enc(("L", [u(8), ("L", [("L", [u(c), ("L", [rid(r) for r in rs])]) for c, rs in links])]))


def s2f37(enable, ceids):
    return e5.enc(("L", [("BOOLEAN", [enable]), ("L", [u(c) for c in ceids])]))


# name -> (function, payload, ambiguous)
REQUESTS = {
    "def1_sv": (33, [(1, [SV])], False),
    "def1_svdv": (33, [(1, [SV, DV])], False),
    "def2_dv": (33, [(2, [DV])], False),
    "def12": (33, [(1, [SV]), (2, [DV])], False),
    "def1_unknown_vid": (33, [(1, [VID_UNKNOWN])], False),
    "def2_then_bad": (33, [(2, [SV]), (1, [VID_UNKNOWN])], False),
    "bad_then_def2": (33, [(1, [VID_UNKNOWN]), (2, [DV])], False),
    "def1_twice": (33, [(1, [SV]), (1, [DV])], True),
    "del1": (33, [(1, [])], False),
    "defA_dv": (33, [("1", [DV])], False),  # text id with the digits of report 1: a different report
    "delA": (33, [("1", [])], False),
    "link_c1_r1A": (35, [(1, [1, "1"])], False),
    "link_c2_rA": (35, [(2, ["1"])], False),
    "del2": (33, [(2, [])], False),
    "delall": (33, [], False),
    "del1_del2": (33, [(1, []), (2, [])], False),
    "del2_del1": (33, [(2, []), (1, [])], False),
    "link_c1_r1": (35, [(1, [1])], False),
    "link_c1_r2": (35, [(1, [2])], False),
    "link_c1_r12": (35, [(1, [1, 2])], False),
    "link_c1_r21": (35, [(1, [2, 1])], False),
    "link_c1_r11": (35, [(1, [1, 1])], True),
    "link_c2_r1": (35, [(2, [1])], False),
    "link_c1c2_r1": (35, [(1, [1]), (2, [1])], False),
    "link_c2_then_bad": (35, [(2, [1]), (1, [9])], False),
    "link_bad_then_c2": (35, [(1, [9]), (2, [1])], False),
    "link_c1c2_r2": (35, [(1, [2]), (2, [2])], False),
    "link_c77_r1": (35, [(77, [1])], False),
    "unlink_c1": (35, [(1, [])], False),
    "enable_c1": (37, (True, [1]), False),
    "enable_all": (37, (True, []), False),
    "disable_c1": (37, (False, [1]), False),
    "disable_all": (37, (False, []), False),
    "enable_c2": (37, (True, [2]), False),
}
ALPHABET_QUICK = ["def1_sv", "link_c1_r1", "enable_all", "def2_dv", "link_c1_r12", "del1", "link_c1_r11", "delall", "unlink_c1",
                  "link_c2_r1", "def1_svdv", "disable_c1", "def1_unknown_vid", "link_c2_then_bad", "set_sv", "del2", "link_c1_r2",
                  "bad_then_def2", "link_bad_then_c2", "link_c1c2_r2", "link_c1c2_r1", "def12", "del1_del2", "defA_dv", "delA", "link_c1_r1A"]
ALPHABET_FULL = list(REQUESTS) + ["set_sv"]
# used by the concurrent part's set-up only (not in the BFS alphabets)
REQUESTS["link_c2_r2"] = (35, [(2, [2])], False)


CONFIGURED = ["def1_sv", "link_c1_r1", "enable_all"]


class Ref:
    def __init__(self):
        self.reports = {}  # rptid -> [vid]
        self.links = {}  # ceid -> [rptid]
        self.enabled = {}  # ceid -> bool (only for linked events)

    def snapshot(self):
        return ({k: list(v) for k, v in self.reports.items()}, {k: (list(v), self.enabled.get(k, False)) for k, v in self.links.items()})


def lib_tables(h):
    def plain(x):
        g = getattr(x, "get", None)
        return g() if callable(g) else x

    reports = {}
    for k, rep in h.registered_reports.items():
        reports[plain(k)] = [plain(v) for v in rep.vars]
    links = {}
    for c, link in h.registered_collection_events.items():
        links[plain(c)] = ([plain(r) for r in link.reports], bool(link.enabled))
    return reports, links


class Harness:
    def __init__(self, s):
        import secsgem.gem  # noqa: PLC0415
        import secsgem.secs.variables as V  # noqa: PLC0415,N812

        self.s = s
        self.ep = gh.GemEndpoint("equipment", handler_kwargs={"initial_control_state": "ONLINE"})
        self.h = h = self.ep.handler
        sv = secsgem.gem.StatusVariable(SV, "sv10", "u", V.U4, False)
        sv.value = 5
        h.status_variables[SV] = sv
        dv = secsgem.gem.DataValue(DV, "dv30", V.String, False)
        dv.value = "x"
        h.data_values[DV] = dv
        self.ref = Ref()
        self.viol = []
        self.last_event = None
        self.ok = self.ep.establish(s)

    def v(self, kind, **detail):
        self.viol.append((f"C12|{kind}|event={self.last_event}", detail))

    def values(self):
        return {SV: ("U4", [self.h.status_variables[SV].value]), DV: ("A", str(self.h.data_values[DV].value).encode())}

    def request(self, function, body):
        s, ep = self.s, self.ep
        sysb = ep.send_primary(2 if function != 15 else 6, function, True, body)
        frames = []
        for _ in range(5):
            s.settle()
            new = ep.pump()
            frames += new
            if not ep.auto_reply([f for f in new if f["system"] != sysb]):
                break
        mine = [f for f in frames if f["stype"] == 0 and f["system"] == sysb]
        return mine, frames

    def apply(self, ev):
        ref = self.ref
        self.last_event = ev
        if ev == "set_sv":
            cur = self.h.status_variables[SV].value
            self.h.status_variables[SV].value = 7 if cur == 5 else 5
            self.probe()
            return True
        function, payload, ambiguous = REQUESTS[ev]
        before_ref = ref.snapshot()
        before_lib = lib_tables(self.h)
        if function == 33:
            body = s2f33(payload)
        elif function == 35:
            body = s2f35(payload)
        else:
            body = s2f37(*payload)
        mine, _ = self.request(function, body)
        if len(mine) != 1 or (mine[0]["stream"], mine[0]["function"]) != (2, function + 1):
            self.v(f"no-acknowledge|S2F{function}", frames=[e37.brief(f) for f in mine])
            return True
        try:
            ack = gh.decode_body(mine[0]["body"])[1][0]
        except Exception:  # noqa: BLE001
            self.v(f"acknowledge-undecodable|S2F{function}", body=mine[0]["body"].hex())
            return True
        after_lib = lib_tables(self.h)
        if function in (33, 35):
            if ack != 0:
                # I3: a refused define/link request changes nothing
                if after_lib != before_lib:
                    self.v(f"I3-refused-request-changed-tables|S2F{function}|ack={ack}", before=before_lib, after=after_lib)
                self.adopt(after_lib)
            else:
                expected_refusal = self.must_refuse(function, payload)
                if expected_refusal:
                    self.v(f"I4-invalid-request-accepted|S2F{function}|{expected_refusal}", after=after_lib)
                    self.adopt(after_lib)
                elif ambiguous or self.ambiguous_now(function, payload):
                    if function == 35 and not ambiguous:
                        # linking an event that already has links: appended in link order, or replaced - nothing else
                        for c, rs in payload:
                            old_links = ref.links.get(c, [])
                            got_links = after_lib[1].get(c, ([], False))[0]
                            if rs and got_links not in (old_links + list(rs), list(rs)):
                                self.v("I4-relink-wrong-order", ceid=c, before=old_links, requested=rs, got=got_links)
                    self.adopt(after_lib)
                else:
                    self.effect(function, payload)
                    if (ref.reports, {k: (v, ref.enabled.get(k, False)) for k, v in ref.links.items()}) != after_lib:
                        self.v(f"I4-accepted-request-wrong-effect|S2F{function}", want=ref.snapshot(), got=after_lib, before=before_ref)
                        self.adopt(after_lib)
        else:
            enable, ceids = payload
            targets = ceids or list(ref.links)
            if all(c in ref.links for c in targets):
                if ack != 0:
                    self.v(f"enable-request-refused|ack={ack}")
                for c in targets:
                    ref.enabled[c] = enable
                if (ref.reports, {k: (v, ref.enabled.get(k, False)) for k, v in ref.links.items()}) != after_lib:
                    self.v("S2F37-wrong-effect", want=ref.snapshot(), got=after_lib)
                    self.adopt(after_lib)
            else:
                self.adopt(after_lib)  # unknown / unlinked CEID in an enable request: the statement is silent
        self.probe()
        return True

    def must_refuse(self, function, payload):
        ref = self.ref
        if function == 33:
            for _r, vids in payload:
                if any(v not in (SV, DV, 1001, 1002, 1003, 1004, 1005) for v in vids):
                    return "unknown-VID"
        else:
            for c, rs in payload:
                if c not in (1, 2, 3, 20, 21):
                    return "unknown-CEID"
                if any(r not in ref.reports for r in rs):
                    return "unknown-RPTID"
        return None

    def ambiguous_now(self, function, payload):
        """Requests whose effect E5 leaves open in the current state: redefining an existing report, linking an event that has links."""
        ref = self.ref
        if function == 33:
            return any(vids and r in ref.reports for r, vids in payload)
        return any(rs and c in ref.links for c, rs in payload)

    def effect(self, function, payload):
        ref = self.ref
        if function == 33:
            if not payload:
                ref.reports.clear()
                ref.links.clear()
                ref.enabled.clear()
                return
            for r, vids in payload:
                if vids:
                    ref.reports[r] = list(vids)
                else:
                    ref.reports.pop(r, None)
                    for c in list(ref.links):
                        ref.links[c] = [x for x in ref.links[c] if x != r]
                        if not ref.links[c]:
                            del ref.links[c]
                            ref.enabled.pop(c, None)
        else:
            for c, rs in payload:
                if rs:
                    ref.links[c] = list(rs)
                    ref.enabled.setdefault(c, False)
                else:
                    ref.links.pop(c, None)
                    ref.enabled.pop(c, None)

    def adopt(self, lib):
        reports, links = lib
        self.ref.reports = {k: list(v) for k, v in reports.items()}
        self.ref.links = {k: list(v[0]) for k, v in links.items()}
        self.ref.enabled = {k: v[1] for k, v in links.items()}

    # ------------------------------------------------------------------ I1 / I2 probes
    def probe(self):
        ref = self.ref
        reports, links = lib_tables(self.h)
        for c, (rs, _en) in links.items():
            for r in rs:
                if r not in reports:
                    self.v("I1-link-to-undefined-report", ceid=c, rptid=r, tables=(reports, links))
        vals = self.values()
        for c in CEIDS:
            mine, _ = self.request(15, e5.enc(u(c)))
            if len(mine) != 1 or (mine[0]["stream"], mine[0]["function"]) != (6, 16):
                self.v(f"I2-S6F15-not-answered-with-S6F16|got={[e37.brief(f).split('#')[0] for f in mine]}", ceid=c, tables=(reports, links))
                continue
            got = self.parse_report(mine[0]["body"])
            if got is None:
                self.v("I2-S6F16-malformed", ceid=c, body=mine[0]["body"].hex())
                continue
            want = self.expected_reports(c, vals)
            enabled = ref.enabled.get(c, False)
            if got["ceid"] != c:
                self.v("I2-S6F16-wrong-ceid", ceid=c, got=got)
            elif c in ref.links and enabled and got["reports"] != want:
                self.v("I2-S6F16-reports-differ", ceid=c, got=got["reports"], want=want)
            elif (c not in ref.links or not enabled) and got["reports"] not in ([], want):
                self.v("I2-S6F16-reports-for-disabled-event-differ", ceid=c, got=got["reports"], want=want)
        # triggers
        for c in CEIDS[:2]:
            self.h.trigger_collection_events([c])
            frames = []
            for _ in range(5):
                self.s.settle()
                new = self.ep.pump()
                frames += new
                if not self.ep.auto_reply(new):
                    break
            ev = [f for f in frames if f["stype"] == 0 and (f["stream"], f["function"]) == (6, 11)]
            if c in ref.links and ref.enabled.get(c, False):
                if len(ev) != 1:
                    self.v(f"I2-trigger-S6F11-count={len(ev)}", ceid=c)
                else:
                    got = self.parse_report(ev[0]["body"])
                    want = self.expected_reports(c, vals)
                    if got is None or got["ceid"] != c or got["reports"] != want:
                        self.v("I2-trigger-S6F11-content", ceid=c, got=got, want=want)
            elif c in ref.links and ev:
                self.v("I2-trigger-sent-for-disabled-event", ceid=c)

    def expected_reports(self, c, vals):
        out = []
        for r in self.ref.links.get(c, []):
            vs = []
            for vid in self.ref.reports.get(r, []):
                node = vals.get(vid)
                vs.append(node)
            out.append((r, vs))
        return out

    @staticmethod
    def parse_report(body):
        try:
            node = gh.decode_body(body)
            assert node[0] == "L" and len(node[1]) == 3
            ceid = node[1][1][1][0]
            rpts = []
            for rp in node[1][2][1]:
                assert rp[0] == "L" and len(rp[1]) == 2
                rptid = rp[1][0][1].decode("latin-1") if rp[1][0][0] in ("A", "J") else rp[1][0][1][0]
                vs = [(v[0], v[1]) for v in rp[1][1][1]]
                rpts.append((rptid, vs))
            return {"ceid": ceid, "reports": rpts}
        except Exception:  # noqa: BLE001
            return None

    def canon(self):
        reports, links = lib_tables(self.h)
        h = self.h
        return {"reports": sorted(reports.items(), key=repr), "links": sorted(((k, v[0], v[1]) for k, v in links.items()), key=repr),
                "report_objects": sorted((repr(k), hbfs.plain_attrs(v)) for k, v in h.registered_reports.items()),
                "link_objects": sorted((repr(k), hbfs.plain_attrs(v)) for k, v in h.registered_collection_events.items()),
                "other_containers": hbfs.container_attrs(h, skip=("_registered_reports", "_registered_collection_events")),
                "sv": self.h.status_variables[SV].value, "comm": self.ep.comm()}


def run_history(history, prefix=()):
    history = list(prefix) + list(history)
    out = {}

    def driver(s):
        hx = Harness(s)
        s.hx = hx
        if not hx.ok:
            out["harness"] = "could not establish communication"
            return
        for ev in history:
            hx.apply(ev)
        out["canon"] = hx.canon()

    sched = vrt.run(driver, max_steps=500000, max_time=1e6, line_points=False)
    hx = getattr(sched, "hx", None)
    if sched.harness_failure or sched.driver_exception:
        out["harness"] = (sched.harness_failure or sched.driver_exception)[-1500:]
        return out
    out["v"] = list(hx.viol) if hx else []
    if sched.outcome != "done":
        out["v"].append((f"C12|execution-{sched.outcome}|event={hx.last_event if hx else None}", {"info": sched.deadlock_info}))
        out["canon"] = {"stuck": sched.outcome, "n": len(history)}
        out["terminal"] = True
    for _sig, d in out["v"]:
        d.setdefault("case", {})
    return out


# ------------------------------------------------------------------------------------------ a request against a trigger
REGION = [
    "secsgem.gem.collection_event_capability:CollectionEventCapability._on_s02f33",
    "secsgem.gem.collection_event_capability:CollectionEventCapability._on_s02f35",
    "secsgem.gem.collection_event_capability:CollectionEventCapability._on_s02f37",
    "secsgem.gem.collection_event_capability:CollectionEventCapability.trigger_collection_events",
    "secsgem.gem.collection_event_capability:CollectionEventCapability._build_collection_event",
    "secsgem.gem.collection_event_capability:CollectionEventCapability._get_reports_data",
]
CONC = ["delall", "del1", "unlink_c1", "disable_c1", "def1_svdv", "link_c1_r12", "link_c1_r2"]


def run_conc(devs, budgets, request="delall"):
    """Set-up: reports 1 (SV) and 2 (DV), CEID 1 linked to [1, 2], CEID 2 linked to [2], both enabled.  Then one configuration request
    (handled on the dispatcher thread) races trigger_collection_events([1, 2]) on an application thread.  Whatever the order: each event is
    reported at most once, well formed, with the reports linked before or after the request; an event whose configuration is the same
    before and after is reported exactly once; no library thread dies."""
    box = {}

    def driver(s):
        s.frozen = True
        s.line_points = False
        hx = Harness(s)
        if not hx.ok:
            box["harness"] = "could not establish communication"
            return
        for ev in ("def12", "link_c1_r12", "link_c2_r2", "enable_all"):
            hx.apply(ev)
        if hx.viol:
            box["harness"] = f"set-up reported {hx.viol[0][0]}"
            return
        ep, h = hx.ep, hx.h
        before = hx.ref.snapshot()
        function, payload, _amb = REQUESTS[request]
        body = s2f33(payload) if function == 33 else (s2f35(payload) if function == 35 else s2f37(*payload))
        s.frozen = False
        s.line_points = True
        sysb = ep.send_primary(2, function, True, body)
        h.trigger_collection_events([1, 2])
        frames = []
        for _ in range(6):
            s.settle()
            new = ep.pump()
            frames += new
            if not ep.auto_reply([f for f in new if f["system"] != sysb]):
                break
        s.line_points = False
        s.frozen = True
        box["ack"] = [f["body"].hex() for f in frames if f["stype"] == 0 and f["system"] == sysb]
        box["s6f11"] = [f["body"] for f in frames if f["stype"] == 0 and (f["stream"], f["function"]) == (6, 11)]
        box["before"] = before
        box["after"] = lib_tables(h)
        h.disable()

    sched = vrt.run(driver, devs, budgets, max_steps=500000, max_time=1e6, line_points=True)
    res = {"trace": sched.trace, "v": []}
    case = {"part": "conc", "request": request}
    if sched.harness_failure or sched.driver_exception or box.get("harness"):
        res["harness"] = (sched.harness_failure or sched.driver_exception or box.get("harness"))[-1200:]
        res["obs"] = None
        return res
    if sched.outcome != "done":
        res["v"].append((f"C12|concurrent|execution-{sched.outcome}|{request}", {"case": case, "info": sched.deadlock_info}))
        res["obs"] = sched.outcome
        return res
    errs = [e for e in sched.thread_errors if "KillThread" not in str(e)]
    res["obs"] = {"s6f11": [b.hex() for b in box["s6f11"]], "ack": box["ack"], "errors": len(errs)}
    if errs:
        res["v"].append((f"C12|concurrent|library-thread-died|{request}", {"case": case, "errors": [str(e)[-400:] for e in errs[:2]]}))
    if len(box["ack"]) != 1:
        res["v"].append((f"C12|concurrent|request-answered-{len(box['ack'])}-times|{request}", {"case": case, "ack": box["ack"]}))
    got = {}
    for body in box["s6f11"]:
        try:
            node = gh.decode_body(body)
            ceid = node[1][1][1][0]
            rpts = [r[1][0][1][0] for r in node[1][2][1]]
        except Exception as exc:  # noqa: BLE001
            res["v"].append((f"C12|concurrent|S6F11-malformed|{request}", {"case": case, "error": repr(exc), "body": body.hex()}))
            continue
        got.setdefault(ceid, []).append(rpts)
    for ceid in (1, 2):
        b = box["before"][1].get(ceid, ([], False))
        a = box["after"][1].get(ceid, ([], False))
        reports = got.get(ceid, [])
        if len(reports) > 1:
            res["v"].append((f"C12|concurrent|event-reported-{len(reports)}-times|{request}", {"case": case, "ceid": ceid}))
        for rpts in reports:
            allowed = [x[0] for x in (b, a) if x[1] and x[0]]
            if rpts not in allowed:
                res["v"].append((f"C12|concurrent|S6F11-reports-neither-before-nor-after|{request}", {"case": case, "ceid": ceid, "got": rpts, "allowed": allowed}))
        if not reports and b == a and b[1] and b[0]:
            res["v"].append((f"C12|concurrent|event-with-unchanged-configuration-not-reported|{request}",
                             {"case": case, "ceid": ceid, "errors": [str(e)[-300:] for e in errs[:1]]}))
    return res


def run_alarm_event(devs, budgets, op="set"):
    """An event whose trigger is a change of a variable in its report: the collection event of an alarm change carries the status variable
    AlarmsSet (SVID 1005).  set_alarm / clear_alarm (application thread) trigger the event, the report is built on the library's sender thread;
    under every schedule the one S6F11 must show the alarm in its new state ("current values of their variables")."""
    box = {}
    ce = 100025 if op == "set" else 200025

    def driver(s):
        import secsgem.gem  # noqa: PLC0415

        s.frozen = True
        s.line_points = False
        hx = Harness(s)
        if not hx.ok:
            box["harness"] = "could not establish communication"
            return
        ep, h = hx.ep, hx.h
        h.alarms[25] = secsgem.gem.Alarm(25, "alarm25", "text25", 0x01, 100025, 200025)  # disabled: no S5F1 exchange in the way
        h.collection_events[100025] = secsgem.gem.CollectionEvent(100025, "alarm25 set", [])
        h.collection_events[200025] = secsgem.gem.CollectionEvent(200025, "alarm25 cleared", [])
        if op == "clear":
            h.set_alarm(25)
            s.settle()
            ep.auto_reply(ep.pump())
        for function, body in ((33, s2f33([(5, [1005])])), (35, s2f35([(ce, [5])])), (37, s2f37(True, [ce]))):
            mine, _ = hx.request(function, body)
            if len(mine) != 1 or mine[0]["body"][-1:] != b"\x00":
                box["harness"] = f"set-up request S2F{function} not accepted: {[e37.brief(f) for f in mine]}"
                return
        done = {}

        def alarm_op():
            (h.set_alarm if op == "set" else h.clear_alarm)(25)
            done["ok"] = True

        s.frozen = False
        s.line_points = True
        t = vrt.Thread(target=alarm_op, name="alarm-op")
        t.start()
        frames = []
        for _ in range(6):
            s.settle()
            new = ep.pump()
            frames += new
            if not ep.auto_reply(new):
                break
        s.line_points = False
        s.frozen = True
        box["done"] = bool(done)
        box["s6f11"] = [f["body"] for f in frames if f["stype"] == 0 and (f["stream"], f["function"]) == (6, 11)]
        h.disable()

    sched = vrt.run(driver, devs, budgets, max_steps=500000, max_time=1e6, line_points=True)
    res = {"trace": sched.trace, "v": []}
    case = {"part": "alarm-event", "op": op}
    if sched.harness_failure or sched.driver_exception or box.get("harness"):
        res["harness"] = (sched.harness_failure or sched.driver_exception or box.get("harness"))[-1200:]
        res["obs"] = None
        return res
    if sched.outcome != "done":
        res["v"].append((f"C12|alarm-event|execution-{sched.outcome}|{op}", {"case": case, "info": sched.deadlock_info}))
        res["obs"] = sched.outcome
        return res
    res["obs"] = {"s6f11": [b.hex() for b in box["s6f11"]], "done": box["done"]}
    if not box["done"]:
        res["v"].append((f"C12|alarm-event|call-did-not-return|{op}", {"case": case}))
    if len(box["s6f11"]) != 1:
        res["v"].append((f"C12|alarm-event|S6F11-count={len(box['s6f11'])}|{op}", {"case": case}))
        return res
    got = Harness.parse_report(box["s6f11"][0])
    want_ids = [25] if op == "set" else []
    ok = got is not None and got["ceid"] == ce and len(got["reports"]) == 1 and got["reports"][0][0] == 5 and len(got["reports"][0][1]) == 1
    if ok:
        code, val = got["reports"][0][1][0]
        try:
            ids = [x[1][0] for x in val] if code == "L" else None
        except Exception:  # noqa: BLE001
            ids = None
        if ids != want_ids:
            res["v"].append((f"C12|alarm-event|report-shows-the-alarm-list-before-the-change|{op}", {"case": case, "got": repr(got), "want": want_ids}))
    else:
        res["v"].append((f"C12|alarm-event|S6F11-malformed|{op}", {"case": case, "got": repr(got)}))
    return res


ALARM_REGION = [
    "secsgem.gem.alarm_capability:AlarmCapability.set_alarm",
    "secsgem.gem.alarm_capability:AlarmCapability.clear_alarm",
    "secsgem.gem.alarm_capability:AlarmCapability._get_alarms_set",
]


def run(ctx):
    # S part first (line tracing before any pool is forked)
    from checks import hsms_harness as hh  # noqa: PLC0415
    from mc import explore  # noqa: PLC0415

    missing = hh.trace_region(REGION + ALARM_REGION)
    if missing:
        ctx.note(f"not line-traced (not found): {missing}")
    k = 3 if ctx.thorough else 2
    cparts = []
    ctrans = 0
    for op in ("set", "clear"):
        st = explore.explore(ctx, run_alarm_event, {"sched": k}, f"c12-alarm-event-{op}", opts={"op": op}, chunk=8)
        cparts.append({"alarm_event": op, "executions": st["executions"], "outcomes": st["distinct_outcomes"], "levels_completed": st["levels_completed"]})
        ctrans += st["executions"]
        if st["levels_completed"] < k:
            ctx.exhaustive = False
    for request in CONC:
        st = explore.explore(ctx, run_conc, {"sched": k}, f"c12-conc-{request}", opts={"request": request}, chunk=8)
        cparts.append({"request": request, "executions": st["executions"], "outcomes": st["distinct_outcomes"], "levels_completed": st["levels_completed"]})
        ctrans += st["executions"]
        if st["levels_completed"] < k:
            ctx.exhaustive = False
    ctx.setcov("concurrent_explorations", cparts)
    ctx.setcov("delay_bound", k)
    ctx.assumptions += [
        "concurrent part: one configuration request (dispatcher thread) against trigger_collection_events on an application thread, every schedule "
        "with <= K delays at line granularity of the capability's handlers; no library thread may die, an S6F11 carries the reports linked before "
        "or after the request",
        "reference table model in checks/c12.py; requests E5 leaves ambiguous (two definitions of one RPTID or duplicate RPTIDs in one "
        "request, redefining an existing report, linking an event that already has links) are held to I1-I3 only",
        "for a disabled or unlinked event S6F16 may carry an empty report list; enable requests naming unlinked CEIDs are not constrained",
        "default schedule; S6F11 is acknowledged by the harness",
    ]
    if ctx.thorough:
        alphabet, d0, d1 = ALPHABET_FULL, 3, 6
    else:
        alphabet, d0, d1 = ALPHABET_QUICK, 2, 5
    st = hbfs.search(ctx, run_history, alphabet, "c12", d0, d1, chunk=8)
    ctx.setcov("states", st["states"])
    ctx.setcov("transitions", st["transitions"])
    ctx.setcov("traces_validated_against_impl", st["transitions"])
    ctx.setcov("search", {k: v for k, v in st.items()})
    ctx.setcov("alphabet", alphabet)
    ctx.setcov("exhaustive_depth", d0)
    ctx.setcov("max_depth", d1)
    # the same search started from a working configuration instead of the empty one (report 1 linked to event 1, enabled, reported once):
    # delete / redefine / relink histories of total length 3 + d that the search from the empty configuration cannot reach within its depth
    a2 = alphabet if ctx.thorough else ["delall", "del1", "unlink_c1", "def1_svdv", "def1_sv", "link_c1_r1", "enable_all", "def2_dv", "link_c1_r12",
                                        "disable_c1", "link_c1_r2", "set_sv", "defA_dv", "link_c1_r1A"]
    e0, e1 = (2, 7) if ctx.thorough else (1, 6)
    st2 = hbfs.search(ctx, run_history, a2, "c12-from-configured", e0, e1, opts={"prefix": CONFIGURED}, chunk=8)
    ctx.setcov("search_from_configured", {"prefix": CONFIGURED, "alphabet": a2, "exhaustive_depth": e0, "max_depth": e1, **{k: v for k, v in st2.items()}})
    ctx.setcov("states", st["states"] + st2["states"])
    ctx.setcov("transitions", st["transitions"] + st2["transitions"])
    ctx.setcov("traces_validated_against_impl", st["transitions"] + st2["transitions"])


def replay(ctx, detail):
    case = detail["case"]
    if case.get("part") == "alarm-event":
        from checks import hsms_harness as hh  # noqa: PLC0415

        hh.trace_region(REGION + ALARM_REGION)
        devs = {int(k): v for k, v in case.get("devs", {}).items()}
        r = run_alarm_event(devs, case.get("budgets", {}), op=case["op"])
        ctx.evaluations += 1
        print("replayed:", r.get("obs"))
        for sig, d in r["v"]:
            ctx.violation(sig, d)
        return
    if case.get("part") == "conc":
        from checks import hsms_harness as hh  # noqa: PLC0415

        hh.trace_region(REGION)
        devs = {int(k): v for k, v in case.get("devs", {}).items()}
        r = run_conc(devs, case.get("budgets", {}), request=case["request"])
        ctx.evaluations += 1
        print("replayed:", r.get("obs"))
        for sig, d in r["v"]:
            ctx.violation(sig, d)
        return
    r = run_history(case["history"], **{k: v for k, v in (case.get("opts") or {}).items() if k == "prefix"})
    ctx.evaluations += 1
    print("replayed", case["history"], "->", r.get("canon"))
    for sig, d in r.get("v", ()):
        ctx.violation(sig, d)
