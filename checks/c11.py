"""C11 - the GEM control state follows the E30 control model for every operator/host history.

Shape H: history BFS over operator switches and host requests on a real GemEquipmentHandler in every
initial-state configuration, with the host answering / aborting / ignoring the attempt-online probe and
control-state events linked+enabled or not, against the reference table of DESIGN.md Appendix C.
"""
from __future__ import annotations

from checks import gem_harness as gh
from mc import hbfs, vrt
from ref import e5, e37

LEVEL = "model_checking"
BUDGET = {"quick": 420, "thorough": 3000}

ALPHABET = ["op_online", "s1f17", "op_offline", "s1f15", "op_local", "op_remote", "s1f3", "tick"]
CODE = {"EQUIPMENT_OFFLINE": 1, "ATTEMPT_ONLINE": 2, "HOST_OFFLINE": 3, "ONLINE_LOCAL": 4, "ONLINE_REMOTE": 5}
CE_OFFLINE, CE_LOCAL, CE_REMOTE = 1, 2, 3


def u(n):
    return ("U4", [n])


class Ref:
    def __init__(self, initial, online_sub):
        self.sub = online_sub  # remembered LOCAL / REMOTE
        self.pending_attempt = False
        if initial == "ONLINE":
            self.state = "ONLINE_" + online_sub
        elif initial == "ATTEMPT_ONLINE":
            # constructed while not communicating: the attempt fails at once (E30 allows HOST or EQUIPMENT OFF-LINE)
            self.state = ("HOST_OFFLINE", "EQUIPMENT_OFFLINE")
        else:
            self.state = initial

    def online(self):
        return isinstance(self.state, str) and self.state.startswith("ONLINE")


class Harness:
    def __init__(self, s, initial, sub, probe, events_on):
        self.s = s
        self.probe = probe
        self.events_on = events_on
        self.ep = gh.GemEndpoint("equipment", handler_kwargs={"initial_control_state": initial, "initial_online_control_state": sub})
        self.h = self.ep.handler
        self.ref = Ref(initial, sub)
        self.viol = []
        self.pending_op = None
        self.last_event = None
        self.cfg = f"{initial}/{sub}/{probe}/{'ev' if events_on else 'noev'}"
        self.setup_ok = self.setup()

    def v(self, kind, **detail):
        pre = self.pre if isinstance(self.pre, str) else "|".join(self.pre)
        self.viol.append((f"C11|{kind}|event={self.last_event}|pre={pre}|{'ev' if self.events_on else 'noev'}", detail))

    def cur(self):
        return self.h.control_state.current.name

    def setup(self):
        s, ep = self.s, self.ep
        self.last_event, self.pre = "setup", self.ref.state
        self.sync_state("construct")
        if not ep.establish(s):
            return False
        if self.events_on:
            body33 = e5.enc(("L", [u(1), ("L", [("L", [u(1), ("L", [u(1002)])])])]))
            body35 = e5.enc(("L", [u(2), ("L", [("L", [u(ce), ("L", [u(1)])]) for ce in (CE_OFFLINE, CE_LOCAL, CE_REMOTE)])]))
            body37 = e5.enc(("L", [("BOOLEAN", [True]), ("L", [])]))
            for f, body in ((33, body33), (35, body35), (37, body37)):
                sysb = ep.send_primary(2, f, True, body)
                s.settle()
                frs = ep.pump()
                rep = [x for x in frs if x["system"] == sysb and x["stype"] == 0]
                if len(rep) != 1 or rep[0]["body"] != e5.enc(("B", b"\x00")):
                    self.viol.append((f"C11|setup-S2F{f}-not-acknowledged", {"frames": [e37.brief(x) for x in frs]}))
                    return False
        return True

    def sync_state(self, where):
        """Compare current state with the reference (which may allow two states); adopt the implementation's choice."""
        cur = self.cur()
        want = self.ref.state
        if isinstance(want, tuple):
            if cur in want:
                self.ref.state = cur
            else:
                self.v(f"state|got={cur}|want={'/'.join(want)}", where=where)
                self.ref.state = cur if cur in CODE else want[0]
        elif cur != want:
            self.v(f"state|got={cur}|want={want}", where=where)
            if cur in CODE:
                self.ref.state = cur

    # ------------------------------------------------------------------ events
    def apply(self, ev):
        s, ep, h, ref = self.s, self.ep, self.h, self.ref
        self.last_event = ev
        self.pre = ref.state
        expect_ce = []
        expect_ack = None
        sysb = None
        if ev.startswith("op_"):
            if self.pending_op is not None:
                return False
            self.run_operator(ev)
            return True
        if ev == "tick":
            if self.pending_op is None or not s.pending_deadlines():
                return False
            # let the attempt-online probe run into its reply timeout
            for _ in range(4):
                if self.pending_op["done"]:
                    break
                s.advance()
            if not self.pending_op["done"]:
                self.v("attempt-online-still-pending-after-T3")
                return True
            ref.state = ("HOST_OFFLINE", "EQUIPMENT_OFFLINE")
            self.finish_op([])
            return True
        if ev == "s1f15":
            sysb = ep.send_primary(1, 15, True)
            expect_ack = (16, 0)
            if ref.online():
                ref.state = "HOST_OFFLINE"
                expect_ce = [CE_OFFLINE]
        elif ev == "s1f17":
            sysb = ep.send_primary(1, 17, True)
            if ref.state == "HOST_OFFLINE":
                expect_ack = (18, 0)
                ref.state = "ONLINE_" + ref.sub
                expect_ce = [CE_LOCAL if ref.sub == "LOCAL" else CE_REMOTE]
            elif ref.online():
                expect_ack = (18, 2)
            else:
                expect_ack = (18, 1)
        elif ev == "s1f3":
            sysb = ep.send_primary(1, 3, True, e5.enc(("L", [u(1002)])))
        else:
            raise ValueError(ev)
        frames = self.collect()
        mine = [f for f in frames if f["stype"] == 0 and f["system"] == sysb]
        if ev == "s1f3":
            want_code = CODE.get(ref.state if isinstance(ref.state, str) else "", None)
            if self.pending_op is not None:
                want_code = CODE["ATTEMPT_ONLINE"]
            ok = len(mine) == 1 and (mine[0]["stream"], mine[0]["function"]) == (1, 4)
            if ok:
                try:
                    node = gh.decode_body(mine[0]["body"])
                    ok = node == ("L", [("B", bytes([want_code]))])
                except Exception:  # noqa: BLE001
                    ok = False
            if not ok:
                self.v(f"svid-1002|want={want_code}", frames=[e37.brief(f) + ":" + f["body"].hex() for f in mine])
        else:
            fn, code = expect_ack
            ok = len(mine) == 1 and (mine[0]["stream"], mine[0]["function"]) == (1, fn) and mine[0]["body"] == e5.enc(("B", bytes([code])))
            if not ok:
                self.v(f"ack|S1F{fn}|want={code}", frames=[e37.brief(f) + ":" + f["body"].hex() for f in mine])
        if self.pending_op is None:
            self.sync_state(ev)
        self.check_events(frames, expect_ce)
        return True

    def run_operator(self, ev):
        s, ep, h, ref = self.s, self.ep, self.h, self.ref
        fn = {"op_online": h.control_switch_online, "op_offline": h.control_switch_offline,
              "op_local": h.control_switch_online_local, "op_remote": h.control_switch_online_remote}[ev]
        holder = {"done": False, "error": None, "ev": ev}

        def run():
            try:
                fn()
            except Exception as exc:  # noqa: BLE001
                holder["error"] = repr(exc)
            holder["done"] = True

        vrt.Thread(target=run, name="operator").start()
        # reference: allowed?
        st = ref.state
        allowed = {"op_online": st == "EQUIPMENT_OFFLINE", "op_offline": ref.online(), "op_local": st == "ONLINE_REMOTE",
                   "op_remote": st == "ONLINE_LOCAL"}[ev]
        holder["allowed"] = allowed
        expect_ce = []
        if allowed:
            if ev == "op_offline":
                ref.state = "EQUIPMENT_OFFLINE"
                expect_ce = [CE_OFFLINE]
            elif ev == "op_local":
                ref.state, ref.sub, expect_ce = "ONLINE_LOCAL", "LOCAL", [CE_LOCAL]
            elif ev == "op_remote":
                ref.state, ref.sub, expect_ce = "ONLINE_REMOTE", "REMOTE", [CE_REMOTE]
        self.pending_op = holder
        s.settle()
        frames = ep.pump()
        if ev == "op_online" and allowed:
            probe = [f for f in frames if f["stype"] == 0 and (f["stream"], f["function"]) == (1, 1) and f["w"]]
            if len(probe) != 1:
                self.v(f"attempt-online-probe-count={len(probe)}", frames=[e37.brief(f) for f in frames])
                ref.state = ("HOST_OFFLINE", "EQUIPMENT_OFFLINE", "ONLINE_LOCAL", "ONLINE_REMOTE")
            elif self.probe == "s1f2":
                ep.conn.peer_send(e37.data(1, 2, False, probe[0]["system"], e5.enc(("L", []))))
                ref.state = "ONLINE_" + ref.sub
                expect_ce = [CE_LOCAL if ref.sub == "LOCAL" else CE_REMOTE]
            elif self.probe == "s1f0":
                ep.conn.peer_send(e37.data(1, 0, False, probe[0]["system"]))
                ref.state = ("HOST_OFFLINE", "EQUIPMENT_OFFLINE")
            else:
                ref.state = "ATTEMPT_ONLINE"
                return  # stays pending until the tick event
            frames += self.collect()
        else:
            frames += self.collect()
        self.finish_op(frames, expect_ce)

    def finish_op(self, frames, expect_ce=()):
        holder = self.pending_op
        if not holder["done"]:
            self.v("operator-call-did-not-return", ev=holder["ev"])
            return
        self.pending_op = None
        if not holder.get("allowed") and holder["error"] is None:
            self.v("forbidden-operator-call-did-not-raise")
        if holder.get("allowed") and holder["error"] is not None:
            self.v("allowed-operator-call-raised", error=holder["error"])
        self.sync_state(holder["ev"])
        self.check_events(frames, list(expect_ce))

    def collect(self):
        s, ep = self.s, self.ep
        frames = []
        for _ in range(6):
            s.settle()
            new = ep.pump()
            frames += new
            if not ep.auto_reply(new):
                break
        return frames

    def check_events(self, frames, expect_ce):
        got = []
        for f in frames:
            if f["stype"] == 0 and (f["stream"], f["function"]) == (6, 11):
                try:
                    node = gh.decode_body(f["body"])
                    got.append(node[1][1][1][0])
                except Exception:  # noqa: BLE001
                    got.append("undecodable")
        want = list(expect_ce) if self.events_on else []
        if got != want:
            self.v(f"collection-events|got={got}|want={want}")

    def canon(self):
        h = self.h
        cs = h.control_state
        flags = sorted(n for n in ("init", "control", "offline", "equipment_offline", "attempt_online", "host_offline", "online", "online_local",
                                   "online_remote") if getattr(getattr(cs, n, None), "active", False))
        return {"state": self.cur(), "sub": getattr(cs, "_online_control_state", None), "pending": self.pending_op is not None,
                "comm": self.ep.comm(), "flags": flags, "deadlines": self.s.pending_deadlines()[:2], "threads": gh.live_roles(self.s)}


def run_history(history, initial="ATTEMPT_ONLINE", sub="REMOTE", probe="s1f2", events_on=True):
    out = {}

    def driver(s):
        hx = Harness(s, initial, sub, probe, events_on)
        s.hx = hx
        if not hx.setup_ok:
            out["canon"] = {"setup": "failed"}
            out["terminal"] = True
            if not hx.viol:
                out["harness"] = f"setup failed without a violation: comm={hx.ep.comm()}"
            return
        for i, ev in enumerate(history):
            if not hx.apply(ev):
                out["skip"] = True
                if i != len(history) - 1:
                    out["harness"] = f"inapplicable event {ev} inside stored history {history}"
                return
        out["canon"] = hx.canon()

    sched = vrt.run(driver, max_steps=300000, max_time=1e6, line_points=False)
    hx = getattr(sched, "hx", None)
    if sched.harness_failure or sched.driver_exception:
        out["harness"] = (sched.harness_failure or sched.driver_exception)[-1500:]
        return out
    out["v"] = list(hx.viol) if hx else []
    if sched.outcome != "done":
        out["v"].append((f"C11|execution-{sched.outcome}|event={hx.last_event if hx else None}", {"info": sched.deadlock_info}))
        out.pop("skip", None)
        out["canon"] = {"stuck": sched.outcome, "n": len(history)}
        out["terminal"] = True
    for _sig, d in out["v"]:
        d.setdefault("case", {})
    return out


# ------------------------------------------------------------------------------------------ a host request against an operator switch
REGION = [
    "secsgem.common.state_machine:StateMachine._perform_transition",
    "secsgem.common.state_machine:StateMachine._check_transition_source",
    "secsgem.common.state_machine:StateMachine._execute_transition",
    "secsgem.gem.control_state_machine:ControlStateMachine.*",
]
OPS = {"op_offline": "control_switch_offline", "op_local": "control_switch_online_local", "op_remote": "control_switch_online_remote"}


def ref_step(state, sub, action):
    """E30 control table for one request: (state, sub) -> (state, sub, answer, [CEID reported]); answer = ack code or operator 'ok'/'refused'."""
    online = state.startswith("ONLINE")
    if action == "s1f15":
        return (("HOST_OFFLINE", sub, 0, [CE_OFFLINE]) if online else (state, sub, 0, []))
    if action == "s1f17":
        if state == "HOST_OFFLINE":
            return "ONLINE_" + sub, sub, 0, [CE_LOCAL if sub == "LOCAL" else CE_REMOTE]
        return state, sub, (2 if online else 1), []
    if action == "op_offline":
        return ("EQUIPMENT_OFFLINE", sub, "ok", [CE_OFFLINE]) if online else (state, sub, "refused", [])
    if action == "op_local":
        return ("ONLINE_LOCAL", "LOCAL", "ok", [CE_LOCAL]) if state == "ONLINE_REMOTE" else (state, sub, "refused", [])
    if action == "op_remote":
        return ("ONLINE_REMOTE", "REMOTE", "ok", [CE_REMOTE]) if state == "ONLINE_LOCAL" else (state, sub, "refused", [])
    raise ValueError(action)


def run_conc(devs, budgets, initial="ONLINE", sub="REMOTE", host="s1f15", op="op_local"):
    """The host's S1F15/S1F17 (handled on the dispatcher thread) and an operator switch (application thread) at the same time:
    state, acknowledge code and operator outcome must be those of one of the two serial orders."""
    box = {}

    def driver(s):
        s.frozen = True
        s.line_points = False
        ep = gh.GemEndpoint("equipment", handler_kwargs={"initial_control_state": initial, "initial_online_control_state": sub})
        h = ep.handler
        if not ep.establish(s):
            box["harness"] = f"could not establish communication: {ep.comm()}"
            return
        box["start"] = h.control_state.current.name
        # control-state collection events linked and enabled (report 1 = SVID 1002)
        body33 = e5.enc(("L", [u(1), ("L", [("L", [u(1), ("L", [u(1002)])])])]))
        body35 = e5.enc(("L", [u(2), ("L", [("L", [u(ce), ("L", [u(1)])]) for ce in (CE_OFFLINE, CE_LOCAL, CE_REMOTE)])]))
        body37 = e5.enc(("L", [("BOOLEAN", [True]), ("L", [])]))
        for f, body in ((33, body33), (35, body35), (37, body37)):
            sb = ep.send_primary(2, f, True, body)
            s.settle()
            rep = [x for x in ep.pump() if x["system"] == sb and x["stype"] == 0]
            if len(rep) != 1 or rep[0]["body"] != e5.enc(("B", b"\x00")):
                box["harness"] = f"set-up S2F{f} not acknowledged"
                return
        res = {}

        def operator():
            try:
                getattr(h, OPS[op])()
                res["op"] = "ok"
            except Exception as exc:  # noqa: BLE001
                res["op"] = "refused" if type(exc).__name__ == "WrongSourceStateError" else f"raised {exc!r}"

        s.frozen = False
        s.line_points = True
        sysb = ep.send_primary(1, 15 if host == "s1f15" else 17, True)
        t = vrt.Thread(target=operator, name="operator")
        t.start()
        t.join(60.0)
        frames = []
        for _ in range(6):
            s.settle()
            new = ep.pump()
            frames += new
            if not ep.auto_reply([f for f in new if f["system"] != sysb]):
                break
        s.line_points = False
        s.frozen = True
        ces = []
        for f in frames:
            if f["stype"] == 0 and (f["stream"], f["function"]) == (6, 11):
                try:
                    ces.append(gh.decode_body(f["body"])[1][1][1][0])
                except Exception:  # noqa: BLE001
                    ces.append("undecodable")
        box["ces"] = sorted(ces, key=str)
        mine = [f for f in frames if f["stype"] == 0 and f["system"] == sysb]
        box["ack"] = [(f["function"], f["body"].hex()) for f in mine]
        box["op"] = res.get("op", "did-not-return")
        box["state"] = h.control_state.current.name
        # SVID 1002 afterwards
        sysb = ep.send_primary(1, 3, True, e5.enc(("L", [u(1002)])))
        s.settle()
        rep = [f for f in ep.pump() if f["stype"] == 0 and f["system"] == sysb]
        box["sv"] = rep[0]["body"].hex() if rep else None
        h.disable()

    sched = vrt.run(driver, devs, budgets, max_steps=500000, max_time=1e6, line_points=True)
    res = {"trace": sched.trace, "v": []}
    case = {"part": "conc", "initial": initial, "sub": sub, "host": host, "op": op}
    if sched.harness_failure or sched.driver_exception or box.get("harness"):
        res["harness"] = (sched.harness_failure or sched.driver_exception or box.get("harness"))[-1200:]
        res["obs"] = None
        return res
    if sched.outcome != "done":
        res["v"].append((f"C11|concurrent|execution-{sched.outcome}|{host}+{op}", {"case": case, "info": sched.deadlock_info}))
        res["obs"] = sched.outcome
        return res
    start = box["start"]
    allowed = []
    for first, second in ((host, op), (op, host)):
        st, sb, a1, c1 = ref_step(start, sub, first)
        st, sb, a2, c2 = ref_step(st, sb, second)
        ack, opres = (a1, a2) if first == host else (a2, a1)
        allowed.append((st, ack, opres, sorted(c1 + c2)))
    fn = 16 if host == "s1f15" else 18
    got_ack = None
    if len(box["ack"]) == 1 and box["ack"][0][0] == fn and len(box["ack"][0][1]) == 6:
        got_ack = int(box["ack"][0][1][4:6], 16)
    got = (box["state"], got_ack, box["op"], box["ces"])
    res["obs"] = {"got": got}
    if got[:3] not in [a[:3] for a in allowed]:
        res["v"].append((f"C11|concurrent|not-a-serial-outcome|{host}+{op}|from={start}|got={got[0]}/{got[1]}/{got[2]}",
                         {"case": case, "allowed": allowed, "got": got, "acks": box["ack"]}))
    elif got not in allowed:
        # (the reports are sent by their own threads: compared as a multiset)
        res["v"].append((f"C11|concurrent|collection-events-of-no-serial-order|{host}+{op}|from={start}|got={got[3]}",
                         {"case": case, "allowed": allowed, "got": got}))
    want_sv = e5.enc(("L", [("B", bytes([CODE.get(box["state"], 0)]))])).hex()
    if box["sv"] != want_sv:
        res["v"].append((f"C11|concurrent|svid-1002-differs-from-state|{host}+{op}", {"case": case, "sv": box["sv"], "state": box["state"]}))
    return res


CONC = [("ONLINE", "REMOTE", "s1f15", "op_local"), ("ONLINE", "LOCAL", "s1f15", "op_remote"), ("ONLINE", "REMOTE", "s1f15", "op_offline"),
        ("HOST_OFFLINE", "REMOTE", "s1f17", "op_offline"), ("HOST_OFFLINE", "LOCAL", "s1f17", "op_remote"), ("ONLINE", "LOCAL", "s1f17", "op_offline")]


def configs(thorough):
    for initial in ("EQUIPMENT_OFFLINE", "ATTEMPT_ONLINE", "HOST_OFFLINE", "ONLINE"):
        for sub in ("LOCAL", "REMOTE"):
            for probe in ("s1f2", "s1f0", "none"):
                for events_on in (True, False):
                    if not thorough and not events_on and probe != "s1f2":
                        continue
                    yield {"initial": initial, "sub": sub, "probe": probe, "events_on": events_on}


def run(ctx):
    ctx.assumptions += [
        "reference = DESIGN.md Appendix C control table; an attempt-online failure may land in HOST or EQUIPMENT OFF-LINE (E30 allows both)",
        "collection events are compared by CEID only; the host side of the harness acknowledges S6F11",
        "operator calls run on their own thread; while an attempt-online probe is unanswered no further operator call is issued",
        "concurrent part: S1F15/S1F17 on the dispatcher thread against one operator switch on an application thread, every schedule with "
        "<= K delays at line granularity of the state-machine engine; oracle = the outcome of one of the two serial orders (reference table)",
    ]
    d0, d1 = (4, 10) if ctx.thorough else (2, 9)
    states = trans = 0
    parts = []
    # S part first (line tracing before any pool is forked): a host request racing an operator switch, <= K delays
    from checks import hsms_harness as hh  # noqa: PLC0415
    from mc import explore  # noqa: PLC0415

    missing = hh.trace_region(REGION)
    if missing:
        ctx.note(f"not line-traced (not found): {missing}")
    k = 2 if ctx.thorough else 1
    cparts = []
    for initial, sub, host, op in CONC:
        st = explore.explore(ctx, run_conc, {"sched": k}, f"c11-conc-{initial}-{sub}-{host}-{op}",
                             opts={"initial": initial, "sub": sub, "host": host, "op": op}, chunk=8)
        cparts.append({"initial": initial, "sub": sub, "host": host, "op": op, "executions": st["executions"], "outcomes": st["distinct_outcomes"],
                       "levels_completed": st["levels_completed"]})
        trans += st["executions"]
        if st["levels_completed"] < k:
            ctx.exhaustive = False
    ctx.setcov("concurrent_explorations", cparts)
    ctx.setcov("delay_bound", k)
    for cfg in configs(ctx.thorough):
        name = "c11-{initial}-{sub}-{probe}-{events_on}".format(**cfg)
        st = hbfs.search(ctx, run_history, ALPHABET, name, d0, d1, opts=cfg)
        parts.append({"cfg": cfg, "states": st["states"], "transitions": st["transitions"], "closed": st["closed"], "max_depth": st["max_depth"]})
        states += st["states"]
        trans += st["transitions"]
        if ctx.out_of_time():
            break
    ctx.setcov("states", states)
    ctx.setcov("transitions", trans)
    ctx.setcov("traces_validated_against_impl", trans)
    ctx.setcov("configurations", len(parts))
    ctx.setcov("parts", parts)
    ctx.setcov("alphabet", ALPHABET)
    ctx.setcov("exhaustive_depth", d0)
    ctx.setcov("max_depth", d1)


def replay(ctx, detail):
    case = detail["case"]
    if case.get("part") == "conc":
        from checks import hsms_harness as hh  # noqa: PLC0415

        hh.trace_region(REGION)
        devs = {int(k): v for k, v in case.get("devs", {}).items()}
        r = run_conc(devs, case.get("budgets", {}), initial=case["initial"], sub=case["sub"], host=case["host"], op=case["op"])
        ctx.evaluations += 1
        print("replayed:", r.get("obs"))
        for sig, d in r["v"]:
            ctx.violation(sig, d)
        return
    opts = case.get("opts", {})
    r = run_history(case["history"], **opts)
    ctx.evaluations += 1
    print("replayed", case["history"], opts, "->", r.get("canon"))
    for sig, d in r.get("v", ()):
        ctx.violation(sig, d)
