"""C08 - every primary expecting a reply is answered exactly once, with the same system bytes.

Shape H (flat): a real GemHostHandler / GemEquipmentHandler is driven to COMMUNICATING, then batches of
inbound primaries are injected one after the other (settling after each) and the frames it writes are
decoded by the reference codec.  Enumerated: every stream x function x W header with an empty body,
every catalogued function with {well-formed sample, truncated, wrong item type, trailing bytes}
bodies, and user callbacks that return a secondary / raise / return None; batches also run in reverse
order (the answer must not depend on what came before).
"""
from __future__ import annotations

import itertools
import os

from checks import gem_harness as gh
from mc import explore, vrt
from ref import e5, e37

LEVEL = "model_checking"
BUDGET = {"quick": 420, "thorough": 3000}

USER_SF = {"equipment": (7, 1), "host": (6, 5)}  # catalogued primaries without an inherited callback


def has_f0(handler, stream):
    return handler.settings.streams_functions.function(stream, 0) is not None


def sample_bodies():
    """(stream, function) -> list of well-formed bodies built from the catalogue's own sample data (input generation only)."""
    import yaml  # noqa: PLC0415
    import secsgem  # noqa: PLC0415
    import secsgem.secs  # noqa: PLC0415

    path = os.path.join(os.path.dirname(secsgem.secs.__file__), "functions.yaml")
    with open(path) as f:
        cat = yaml.safe_load(f)
    sf = secsgem.secs.functions.StreamsFunctions()
    out = {}
    for key, entry in cat.items():
        s, fn = int(key[1:3]), int(key[4:6])
        cls = sf.function(s, fn)
        if cls is None:
            continue
        samples = entry.get("sample_data")
        if samples is None:
            datas = [None]
        elif isinstance(samples, list):
            datas = [x.get("data") for x in samples]
        else:
            datas = [samples]
        bodies = []
        for d in datas:
            try:
                if d is None or d == "":
                    obj = cls()
                else:
                    obj = cls(eval(d, {"secsgem": secsgem}))  # noqa: S307 - catalogue sample expressions
                bodies.append(bytes(obj.encode()))
            except Exception:  # noqa: BLE001
                continue
        if bodies:
            out[(s, fn)] = bodies
    return out


def body_variants(body):
    """well-formed, truncated, wrong item type, trailing bytes (the last three only when they differ)."""
    out = [("sample", body)]
    if len(body) >= 2:
        out.append(("truncated", body[:-1]))
        # flip the format code of the last leaf item header we can find: change the first byte's type bits if it is not a list
        b = bytearray(body)
        pos = _first_leaf(body)
        if pos is not None:
            fc = b[pos] >> 2
            new_fc = 0o51 if fc != 0o51 else 0o20
            b[pos] = (new_fc << 2) | (b[pos] & 3)
            out.append(("wrong-type", bytes(b)))
            # the first leaf wrapped in 1500 one-element lists: deeper than the interpreter's recursion limit wherever a list is accepted there
            for k, lp in enumerate(_leaf_positions(body)[:8]):
                out.append((f"deep-at-leaf-{k}", body[:lp] + b"\x01\x01" * 1500 + body[lp:]))
        out.append(("trailing", body + b"\xa5\x01\x07"))
    return out


def _first_leaf(body):
    pos = 0
    try:
        while pos < len(body):
            fb = body[pos]
            nlb = fb & 3
            if fb >> 2 != 0:
                return pos
            if nlb == 0:
                return None
            pos += 1 + nlb
    except IndexError:
        return None
    return None


def _leaf_positions(body):
    """Byte offsets of every leaf item header of a well-formed body (lists are walked, not skipped)."""
    out = []
    pos = 0
    try:
        while pos < len(body):
            fb = body[pos]
            nlb = fb & 3
            if nlb == 0:
                break
            n = int.from_bytes(body[pos + 1:pos + 1 + nlb], "big")
            if fb >> 2 == 0:
                pos += 1 + nlb  # a list: its elements follow
            else:
                out.append(pos)
                pos += 1 + nlb + n
    except IndexError:
        pass
    return out


class Probe:
    pass


def run_batch(batch, role="equipment", user_mode="none", order="fwd"):
    """batch: list of [stream, function, w, body_hex, tag]. Returns violations + observations."""
    msgs = list(batch)
    if order == "rev":
        msgs = msgs[::-1]
    out = {"v": [], "obs": []}

    def driver(s):
        ep = gh.GemEndpoint(role)
        h = ep.handler
        calls = []
        us, uf = USER_SF[role]
        if user_mode != "none":
            def user_cb(handler, message):
                calls.append((message.header.system, h.communication_state.current.name))
                if user_mode == "raise":
                    raise RuntimeError("user callback failed")
                if user_mode == "none-result":
                    return None
                return h.stream_function(us, uf + 1)(0)

            h.register_stream_function(us, uf, user_cb)
        if not ep.establish(s):
            out["harness"] = f"could not establish communication: {ep.comm()} {ep.state()}"
            return
        for idx, (stream, function, w, body_hex, tag) in enumerate(msgs):
            if user_mode == "reply-unregister-register" and idx in (1, 2):
                # second message: the callback has been unregistered; third: registered again
                if idx == 1:
                    h.unregister_stream_function(us, uf)
                else:
                    h.register_stream_function(us, uf, user_cb)
            body = bytes.fromhex(body_hex)
            sysb = ep.send_primary(stream, function, bool(w), body)
            hdr = e37.data(stream, function, bool(w), sysb, b"")[4:14]
            frames = []
            for _ in range(6):
                s.settle()
                new = ep.pump()
                frames += new
                if not ep.auto_reply([f for f in new if f["system"] != sysb]):
                    break
            mine = [f for f in frames if f["stype"] == 0 and f["system"] == sysb]
            registered = user_mode != "none" and (stream, function) == (us, uf) and not (user_mode == "reply-unregister-register" and idx == 1)
            inherited = callable(getattr(h, f"_on_s{stream:02d}f{function:02d}", None))
            kinds = [(f["stream"], f["function"]) for f in mine]
            ctxinfo = {"msg": [stream, function, w, body_hex, tag], "replies": [e37.brief(f) for f in mine], "comm": ep.comm(),
                       "case": {"batch": [[stream, function, w, body_hex, tag]], "role": role, "user_mode": user_mode, "order": "fwd"}}
            where = f"{role}|S{stream}F{function}" if (inherited or registered or tag != "hdr") else f"{role}|no-callback"
            if function % 2 == 0:
                # secondaries / F0: not a primary; only "no crash, still communicating" is required
                pass
            elif not w:
                if mine:
                    # one call site (SecsHandler._handle_stream_function sends whatever the callback produced); the signature names
                    # the kind of reply, not the function, so that the recorded finding covers exactly this defect
                    k = "abort" if kinds[0][1] == 0 else ("S9F5" if kinds[0] == (9, 5) else "callback-result")
                    if k != "abort":  # the statement only covers messages "handled without error"; an abort means the callback failed
                        out["v"].append((f"C08|reply-to-message-without-W|{role}|{k}", ctxinfo))
            elif inherited or registered:
                if registered and user_mode == "none-result":
                    if mine:
                        out["v"].append((f"C08|reply-although-callback-returned-none|{where}", ctxinfo))
                elif len(mine) != 1:
                    if has_f0(h, stream) or len(mine) > 1:
                        out["v"].append((f"C08|reply-count={len(mine)}|{where}|{tag}", ctxinfo))
                    else:
                        out["obs"].append(("no-F0-class-for-stream", stream))
                elif registered and user_mode == "raise":
                    if kinds[0] != (stream, 0):
                        out["v"].append((f"C08|failed-callback-not-aborted|{where}|got=S{kinds[0][0]}F{kinds[0][1]}", ctxinfo))
                elif kinds[0] not in ((stream, function + 1), (stream, 0)):
                    out["v"].append((f"C08|wrong-reply-function|{where}|{tag}|got=S{kinds[0][0]}F{kinds[0][1]}", ctxinfo))
                elif registered and user_mode in ("reply", "reply-unregister-register") and kinds[0] != (stream, function + 1):
                    out["v"].append((f"C08|callback-result-not-sent|{where}|got=S{kinds[0][0]}F{kinds[0][1]}", ctxinfo))
                elif tag == "sample" and kinds[0] == (stream, 0) and inherited:
                    out["obs"].append(("abort-on-sample", stream, function))
            else:
                # no callback: exactly one S9F5 carrying the offending header
                if len(mine) != 1 or kinds[0] != (9, 5):
                    out["v"].append((f"C08|no-callback-not-answered-with-one-S9F5|{role}|got={[f'S{a}F{b}' for a, b in kinds]}|"
                                     f"{'catalogued' if tag != 'hdr' or _catalogued(h, stream, function) else 'uncatalogued'}", ctxinfo))
                else:
                    try:
                        node = gh.decode_body(mine[0]["body"])
                        if node != ("B", hdr):
                            out["v"].append((f"C08|S9F5-MHEAD-differs|{role}", dict(ctxinfo, mhead=repr(node), want=hdr.hex())))
                    except Exception as exc:  # noqa: BLE001
                        out["v"].append((f"C08|S9F5-body-malformed|{role}", dict(ctxinfo, error=repr(exc))))
            if ep.comm() != "COMMUNICATING":
                out["v"].append((f"C08|left-communicating-after-message|{where}|{tag}", ctxinfo))
                return
        out["ncalls"] = len(calls)

    sched = vrt.run(driver, max_steps=2_000_000, max_time=1e7, line_points=False)
    if sched.harness_failure or sched.driver_exception:
        out["harness"] = (sched.harness_failure or sched.driver_exception)[-1500:]
    elif sched.outcome != "done":
        out["v"].append((f"C08|execution-{sched.outcome}|{role}", {"info": sched.deadlock_info,
                                                                     "case": {"batch": msgs, "role": role, "user_mode": user_mode, "order": "fwd"}}))
    return out


# ------------------------------------------------------------------------------------------ histories with own requests first
def run_after_requests(pre=(), primary=(1, 1), same_as=0, role="equipment"):
    """The handler first issues own requests (answered by the peer, or running into T3); then the peer sends a primary whose system bytes
    equal those of one of these finished requests (host and equipment count system bytes independently) or are fresh."""
    out = {"v": [], "obs": []}
    case = {"part": "after-requests", "pre": list(pre), "primary": list(primary), "same_as": same_as, "role": role}

    def driver(s):
        ep = gh.GemEndpoint(role)
        h = ep.handler
        if not ep.establish(s):
            out["harness"] = f"could not establish communication: {ep.comm()} {ep.state()}"
            return
        used = []
        for kind in pre:
            res = {}

            def req(res=res):
                res["r"] = h.send_and_waitfor_response(h.stream_function(1, 1)())

            t = vrt.Thread(target=req, name="local-request")
            t.start()
            s.settle()
            mine = [f for f in ep.pump() if f["stype"] == 0 and (f["stream"], f["function"]) == (1, 1)]
            if len(mine) != 1:
                out["harness"] = f"own S1F1 not seen: {mine}"
                return
            used.append(mine[0]["system"])
            if kind == "answered":
                body = e5.enc(("L", [])) if role != "host" else e5.enc(("L", [("A", b"mdln"), ("A", b"1.0")]))
                ep.conn.peer_send(e37.data(1, 2, False, mine[0]["system"], body))
                s.settle()
            else:
                for _ in range(4):
                    if "r" in res:
                        break
                    s.advance()
            if "r" not in res:
                out["harness"] = f"own request did not finish ({kind})"
                return
            if (res["r"] is None) != (kind == "timeout"):
                out["harness"] = f"own request result unexpected for {kind}: {res['r']!r}"
                return
            ep.pump()
        stream, function = primary
        sysb = used[same_as - 1] if same_as else None
        sysb = ep.send_primary(stream, function, True, b"", system=sysb)
        s.settle()
        frames = ep.pump()
        mine = [f for f in frames if f["stype"] == 0 and f["system"] == sysb]
        kinds = [(f["stream"], f["function"]) for f in mine]
        inherited = callable(getattr(h, f"_on_s{stream:02d}f{function:02d}", None))
        want = [(stream, function + 1), (stream, 0)] if inherited else [(9, 5)]
        which = "fresh-system-bytes" if not same_as else f"system-bytes-of-own-{pre[same_as - 1]}-request"
        if len(mine) != 1 or kinds[0] not in want:
            out["v"].append((f"C08|primary-after-own-requests|reply-count={len(mine)}|{which}|{'callback' if inherited else 'no-callback'}",
                             {"case": case, "replies": [e37.brief(f) for f in mine], "queues": len(getattr(h.protocol, "_response_queues", {}) or {})}))
        if ep.comm() != "COMMUNICATING":
            out["v"].append(("C08|left-communicating-after-message|after-requests", {"case": case}))

    sched = vrt.run(driver, max_steps=2_000_000, max_time=1e7, line_points=False)
    if sched.harness_failure or sched.driver_exception:
        out["harness"] = (sched.harness_failure or sched.driver_exception)[-1500:]
    elif sched.outcome != "done":
        out["v"].append((f"C08|execution-{sched.outcome}|{role}|after-requests", {"info": sched.deadlock_info, "case": case}))
    return out


# ------------------------------------------------------------------------------------------ schedules around one primary
REGION = [
    "secsgem.common.protocol:Protocol.send_message",
    "secsgem.common.protocol:Protocol.send_response",
    "secsgem.common.protocol:Protocol._dispatch_block",
    "secsgem.common.protocol:Protocol._on_connection_data_received",
    "secsgem.common.protocol:Protocol._process_data",
    "secsgem.hsms.protocol:HsmsProtocol._process_send_queue",
    "secsgem.hsms.protocol:HsmsProtocol._process_received_data",
    "secsgem.hsms.protocol:HsmsProtocol._on_connection_message_received",
    "secsgem.common.protocol_dispatcher:ProtocolDispatcher.*",
    "secsgem.common.block_send_info:BlockSendInfo.*",
]


def run_sched(devs, budgets, role="equipment", msgs=((1, 1),), split=False):
    """One or two primaries (with callback / without) delivered in one or two segments; every schedule with <= K delays of the connection
    receiver, protocol receiver and dispatcher threads (line granularity in REGION) - each primary gets exactly one reply."""
    box = {}

    def driver(s):
        s.line_points = False
        s.frozen = True  # reaching COMMUNICATING is set-up: default schedule
        ep = gh.GemEndpoint(role)
        h = ep.handler
        if not ep.establish(s):
            box["harness"] = f"could not establish communication: {ep.comm()} {ep.state()}"
            return
        s.frozen = False
        s.line_points = True
        sysbs = []
        data = b""
        for i, (stream, function) in enumerate(msgs):
            sysb = 0x6100 + i
            sysbs.append(sysb)
            data += e37.data(stream, function, True, sysb, b"")
        if split:
            ep.conn.peer_send(data[:17])
            ep.conn.peer_send(data[17:])
        else:
            ep.conn.peer_send(data)
        s.settle()
        s.line_points = False
        s.frozen = True
        frames = ep.pump()
        box["replies"] = [[(f["stream"], f["function"]) for f in frames if f["stype"] == 0 and f["system"] == x] for x in sysbs]
        box["comm"] = ep.comm()
        box["wire_order"] = [f["system"] & 0xFF for f in frames if f["stype"] == 0]
        h.disable()

    sched = vrt.run(driver, devs, budgets, max_steps=2_000_000, max_time=1e7, line_points=True)
    res = {"trace": sched.trace, "v": []}
    case = {"part": "sched", "role": role, "msgs": [list(m) for m in msgs], "split": split}
    if sched.harness_failure or sched.driver_exception or box.get("harness"):
        res["harness"] = (sched.harness_failure or sched.driver_exception or box.get("harness"))[-1200:]
        res["obs"] = None
        return res
    if sched.outcome != "done":
        res["v"].append((f"C08|schedule|execution-{sched.outcome}|{role}", {"case": case, "info": sched.deadlock_info}))
        res["obs"] = sched.outcome
        return res
    res["obs"] = {"replies": box["replies"], "comm": box["comm"], "wire_order": box["wire_order"]}
    for (stream, function), rep in zip(msgs, box["replies"]):
        want = [(stream, function + 1), (stream, 0)] if (stream, function) == (1, 1) else [(9, 5)]
        if len(rep) != 1 or rep[0] not in want:
            res["v"].append((f"C08|schedule|reply-count={len(rep)}|{role}|{'callback' if (stream, function) == (1, 1) else 'no-callback'}",
                             {"case": case, "replies": box["replies"]}))
    return res


def _catalogued(h, stream, function):
    return h.settings.streams_functions.function(stream, function) is not None


def check_case(case):
    if case.get("part") == "after-requests":
        res = run_after_requests(tuple(case["pre"]), tuple(case["primary"]), case["same_as"], case["role"])
        v = res.get("v", [])
        if res.get("harness"):
            v = v + [("HARNESS|c08-after-requests", {"case": case, "trace": res["harness"]})]
        return {"v": v, "nt": True, "cnt": {"messages": 1 + len(case["pre"])}}
    res = run_batch(case["batch"], case["role"], case.get("user_mode", "none"), case.get("order", "fwd"))
    v = res.get("v", [])
    if res.get("harness"):
        v = v + [("HARNESS|c08", {"case": case, "trace": res["harness"]})]
    return {"v": v, "nt": True, "cnt": {"messages": len(case["batch"])}, "tags": [str(o[0]) for o in res.get("obs", [])][:3]}


def cases(ctx):
    samples = sample_bodies()
    thorough = ctx.thorough
    # (d) own requests first (answered / timed out), then a primary reusing their system bytes
    for role in ("equipment", "host"):
        for n in (1, 2) + ((3,) if thorough else ()):
            for pre in itertools.product(("timeout", "answered"), repeat=n):
                for primary in ((1, 1), (99, 1)):
                    for same_as in range(0, n + 1):
                        yield {"part": "after-requests", "role": role, "pre": list(pre), "primary": list(primary), "same_as": same_as}
    funcs_quick = [0, 1, 2, 3, 5, 11, 13, 15, 17, 33, 35, 37, 41, 63, 65, 127, 129, 253, 255]
    for role in ("equipment", "host"):
        # (a) header sweep, empty bodies
        for stream in range(128):
            fs = range(256) if thorough else funcs_quick
            batch = [[stream, f, w, "", "hdr"] for f in fs for w in (1, 0)]
            for i in range(0, len(batch), 128):
                yield {"role": role, "batch": batch[i:i + 128]}
        # (b) catalogued functions x body variants, forward and reverse order
        batch = []
        for (s, f), bodies in sorted(samples.items()):
            for body in bodies:
                for tag, b in body_variants(body):
                    for w in ((1, 0) if f % 2 else (0,)):
                        batch.append([s, f, w, b.hex(), tag])
        for i in range(0, len(batch), 64):
            yield {"role": role, "batch": batch[i:i + 64]}
            yield {"role": role, "batch": batch[i:i + 64], "order": "rev"}
        # (b2) bodies nested deeper than the interpreter's recursion limit (1500 one-element lists around a U1) for functions with a callback,
        #      with list-valued items, and without callback: still exactly one answer
        deep = e5.enc(("U1", [1]))
        for _ in range(1500):
            deep = b"\x01\x01" + deep
        yield {"role": role, "batch": [[s_, f_, 1, deep.hex(), "deep-nesting"] for s_, f_ in ((1, 3), (6, 11), (2, 41), (1, 13), (99, 1), (2, 33))]}
        # (c) user callbacks on a catalogued primary without inherited handler
        us, uf = USER_SF[role]
        ub = samples.get((us, uf), [b""])[0]
        # register, handle one primary, unregister, the same primary again (S9F5 now), register again, once more (answered again)
        yield {"role": role, "batch": [[us, uf, 1, ub.hex(), "sample"], [us, uf, 1, ub.hex(), "sample"], [us, uf, 1, ub.hex(), "sample"], [1, 1, 1, "", "hdr"]],
               "user_mode": "reply-unregister-register"}
        for mode in ("reply", "raise", "none-result"):
            seq = [[us, uf, 1, ub.hex(), "sample"], [1, 1, 1, "", "hdr"], [us, uf, 1, ub.hex(), "sample"], [us, uf, 0, ub.hex(), "sample"],
                   [99, 1, 1, "", "hdr"], [us, uf, 1, ub[:-1].hex(), "truncated"], [1, 1, 1, "", "hdr"]]
            yield {"role": role, "batch": seq, "user_mode": mode}
            yield {"role": role, "batch": seq, "user_mode": mode, "order": "rev"}


def run(ctx):
    ctx.assumptions += [
        "the oracle decodes replies with the independent codec (ref/e5.py, ref/e37.py); message bodies fed in are built from the "
        "catalogue's own sample data (input generation only)",
        "for a primary with a callback the reply may be function+1 or the stream's F0 (the statement allows both); body content is not constrained",
        "a callback that returns None is the application's decision not to answer (no reply expected)",
        "default schedule, settle after each message; equipment-initiated S5F1/S6F11 are acknowledged by the harness",
        "part (d): the peer may reuse the system bytes of a finished (answered or timed-out) request of this side for its own primary; "
        "part (e): one or two primaries under every schedule with <= K delays at line granularity of the dispatcher / send path",
    ]
    # S part first (line tracing before any pool is forked)
    from checks import hsms_harness as hh  # noqa: PLC0415
    from mc import explore  # noqa: PLC0415

    missing = hh.trace_region(REGION)
    if missing:
        ctx.note(f"not line-traced (not found): {missing}")
    k = 3 if ctx.thorough else 2
    sparts = []
    strans = 0
    for role in ("equipment", "host"):
        for msgs, split in ((((1, 1),), False), (((99, 1),), False), (((1, 1), (99, 1)), False), (((1, 1), (1, 1)), True),
                            (((99, 1), (1, 1), (99, 1)), True)):
            st = explore.explore(ctx, run_sched, {"sched": k}, f"c08-sched-{role}-{msgs}-{split}", opts={"role": role, "msgs": msgs, "split": split}, chunk=8)
            sparts.append({"role": role, "msgs": msgs, "split": split, "executions": st["executions"], "outcomes": st["distinct_outcomes"],
                           "levels_completed": st["levels_completed"]})
            strans += st["executions"]
            if st["levels_completed"] < k:
                ctx.exhaustive = False
        if ctx.out_of_time():
            break
    ctx.setcov("schedule_explorations", sparts)
    ctx.setcov("delay_bound", k)
    n = ctx.run_cases(check_case, cases(ctx), "c08", chunk=2)
    n += strans
    msgs = ctx.cov.get("messages", 0)
    ctx.setcov("states", n)
    ctx.setcov("transitions", msgs)
    ctx.setcov("traces_validated_against_impl", n)
    ctx.setcov("states_meaning", "batches (each a fresh handler driven to COMMUNICATING); transitions = messages injected")
    ctx.setcov("rule", "every stream x function(boundary set quick / all 256 thorough) x W header, every catalogued function x body variants, "
                       "user-callback variants; each message is one transition of a real handler")


def replay(ctx, detail):
    case = detail["case"]
    if case.get("part") == "sched":
        from checks import hsms_harness as hh  # noqa: PLC0415

        hh.trace_region(REGION)
        devs = {int(k): v for k, v in case.get("devs", {}).items()}
        r = run_sched(devs, case.get("budgets", {}), role=case["role"], msgs=tuple(tuple(m) for m in case["msgs"]), split=case["split"])
        print("replayed:", r.get("obs"))
        ctx.evaluations += 1
        for sig, d in r["v"]:
            ctx.violation(sig, d)
        return
    res = check_case(detail["case"])
    ctx.evaluations += 1
    for sig, d in res.get("v", ()):
        if not sig.startswith("HARNESS"):
            ctx.violation(sig, d)
        else:
            ctx.harness_error(str(d)[:500])
