"""C15 - the SML text of any item parses back to the same item; the parser terminates and rejects broken text.

Shape E: (1) round trip Item.from_sml(item.to_sml()) over the C14 families, every single byte and every
string up to length n over an 'awkward' alphabet for A and J, and list trees; (2) every token string up to
length n over the SML token alphabet; (3) every single-token deletion / insertion / replacement of valid
SML texts.  Every parse runs under a watchdog so that non-termination is a reported violation.
"""
from __future__ import annotations

import itertools
import signal

from checks import c14
from checks import common_e5 as ce
from mc import gen
from ref import e5, sml as refsml

LEVEL = "exploration"
BUDGET = {"quick": 300, "thorough": 2400}

AWKWARD = [0x22, 0x27, 0x3C, 0x3E, 0x5B, 0x5D, 0x20, 0x09, 0x2E, 0x61, 0x30, 0x7F, 0x80, 0xB1, 0xFF, 0x5C, 0x7E, 0x0A]
TOKENS = ["<", ">", "[", "]", "L", "A", "U1", "B", "X", "1", '"x"', "2"]


class Watchdog(Exception):
    pass


def _alarm(_sig, _frm):
    raise Watchdog


def guarded(fn, *a):
    signal.signal(signal.SIGALRM, _alarm)
    signal.setitimer(signal.ITIMER_REAL, 5.0)
    try:
        return fn(*a)
    finally:
        signal.setitimer(signal.ITIMER_REAL, 0)


def same_tree(a, b):
    if type(a) is not type(b):
        return False
    if a._sml_type == "L":
        return len(a._value) == len(b._value) and all(same_tree(x, y) for x, y in zip(a._value, b._value))
    return True


def check_roundtrip(case):
    Item = c14.item_mod()  # noqa: N806
    node = gen.node_from_desc(case["desc"])
    code = node[0]
    cls_sig = code if code != "L" else "L"
    out = []
    try:
        it = c14.build_item(node)
        text = it.to_sml()
    except Exception as exc:  # noqa: BLE001
        return {"v": [(f"C15|to_sml-raises|{cls_sig}", {"case": case, "error": repr(exc)})], "nt": True}
    tags = []
    for how, call in (("Item.from_sml", lambda: Item.from_sml(text)),):
        try:
            back = guarded(call)
        except Watchdog:
            out.append((f"C15|parser-does-not-terminate|{cls_sig}", {"case": case, "sml": text[:200]}))
            continue
        except Exception as exc:  # noqa: BLE001
            out.append((f"C15|roundtrip-parse-raises|{cls_sig}|{_charclass(node)}", {"case": case, "sml": text[:200], "error": repr(exc)[:300]}))
            continue
        try:
            if back.encode() != it.encode() or not same_tree(back, it):
                out.append((f"C15|roundtrip-differs|{cls_sig}|{_charclass(node)}",
                            {"case": case, "sml": text[:200], "got": back.encode()[:48], "want": it.encode()[:48]}))
        except Exception as exc:  # noqa: BLE001
            out.append((f"C15|roundtrip-encode-raises|{cls_sig}", {"case": case, "error": repr(exc)}))
    return {"v": out, "nt": True, "tags": tags}


def _charclass(node):
    code, val = node
    if code not in ("A", "J"):
        return "-"
    kinds = set()
    for b in val:
        if b == 0x22:
            kinds.add("dquote")
        elif b == 0x27:
            kinds.add("squote")
        elif b in (0x3C, 0x3E, 0x5B, 0x5D):
            kinds.add("bracket")
        elif b in (0x20, 0x09):
            kinds.add("space")
        elif b in (0x0A, 0x0D):
            kinds.add("newline")
        elif b < 0x20 or b == 0x7F:
            kinds.add("control")
        elif b >= 0x80:
            kinds.add("high")
        elif code == "J" and b in (0x5C, 0x7E):
            kinds.add("jis-remapped")
        else:
            kinds.add("plain")
    return "+".join(sorted(kinds)) or "empty"


def check_tokens(case):
    """Arbitrary token strings: the parser must terminate; it must raise when the reference says no item can result."""
    Item = c14.item_mod()  # noqa: N806
    out = []
    n = 0
    for toks in case["batch"]:
        text = " ".join(toks)
        n += 1
        must, reason = refsml.must_reject(list(toks))
        try:
            res = guarded(Item.from_sml, text)
            raised = False
        except Watchdog:
            out.append(("C15|parser-does-not-terminate|tokens", {"case": {"kind": "tokens", "batch": [toks]}, "sml": text}))
            continue
        except Exception:  # noqa: BLE001
            raised = True
            res = None
        if must and not raised:
            out.append((f"C15|accepts-broken-text|{reason}", {"case": {"kind": "tokens", "batch": [toks]}, "sml": text, "result": repr(res)[:100]}))
    return {"v": out, "nt": True, "cnt": {"texts_parsed": n}}


def check_texts(case):
    """Character-level damage (unclosed literals, cut-off text): the parser must terminate (return or raise)."""
    Item = c14.item_mod()  # noqa: N806
    out = []
    n = 0
    for text in case["batch"]:
        n += 1
        try:
            guarded(Item.from_sml, text)
        except Watchdog:
            _, open_literal = refsml.tokenize(text)
            out.append((f"C15|parser-does-not-terminate|{'unclosed-literal' if open_literal else 'text'}",
                        {"case": {"kind": "texts", "batch": [text]}, "sml": text}))
            if len(out) >= 2:
                break
        except Exception:  # noqa: BLE001
            pass
    return {"v": out, "nt": True, "cnt": {"texts_parsed": n}}


def valid_texts():
    Item = c14.item_mod()  # noqa: N806,F841
    descs = [
        {"code": "U1", "vals": [1, 2]}, {"code": "A", "vals": [0x68, 0x69]}, {"code": "B", "vals": [1, 255]}, {"code": "BOOLEAN", "vals": [1, 0]},
        {"code": "F8", "vals": [1.5]}, {"code": "I2", "vals": [-3]}, {"code": "A", "vals": []}, {"code": "L", "items": []},
        {"code": "L", "items": [{"code": "U1", "vals": [1]}, {"code": "A", "vals": [0x78]}]},
        {"code": "L", "items": [{"code": "L", "items": [{"code": "U2", "vals": [300]}]}, {"code": "J", "vals": [0x41]}]},
        {"code": "A", "vals": [0x61, 0x00, 0x62]},
    ]
    out = []
    for d in descs:
        text = c14.build_item(gen.node_from_desc(d)).to_sml()
        toks, _ = refsml.tokenize(text)
        out.append(toks)
    return out


def mutations(tokens):
    repl = ["<", ">", "X", "1", "L", "]"]
    for i in range(len(tokens)):
        yield tokens[:i] + tokens[i + 1:]
        for r in repl:
            if r != tokens[i]:
                yield tokens[:i] + [r] + tokens[i + 1:]
    for i in range(len(tokens) + 1):
        for r in repl:
            yield tokens[:i] + [r] + tokens[i:]


def check_sequence(case):
    """Items rendered and parsed back one after the other in one process: what an earlier item left behind (a cache keyed by the
    character, a shared buffer) must not change the text of a later one."""
    out = []
    for d in case["descs"]:
        r = check_roundtrip({"kind": "rt", "desc": d})
        for sig, det in r["v"]:
            det = dict(det)
            det["case"] = case
            det["failing_member"] = d
            out.append((sig + "|after-other-items", det))
        if out:
            break
    return {"v": out, "nt": True}


def check_case(case):
    if case["kind"] == "rt":
        return check_roundtrip(case)
    if case["kind"] == "rt_seq":
        return check_sequence(case)
    if case["kind"] == "texts":
        return check_texts(case)
    return check_tokens(case)


def cases(ctx):
    thorough = ctx.thorough
    # (1) round trips
    for code in gen.rotate(gen.LEAF_CODES, ctx.seed):
        for d in gen.leaf_family(code, [0, 1, 2, 3, 17]):
            yield {"kind": "rt", "desc": d}
    for code in ("A", "J"):
        for b in range(256):
            yield {"kind": "rt", "desc": {"code": code, "vals": [b]}}
        n = 4 if thorough else 3
        alpha = AWKWARD if thorough else AWKWARD[:15]
        for k in (2, n) if not thorough else range(2, n + 1):
            for combo in itertools.product(alpha, repeat=k):
                yield {"kind": "rt", "desc": {"code": code, "vals": list(combo)}}
    # the same characters through A and through J one after the other in one process (latin-1 and JIS-8 share characters that have
    # different byte values: yen sign, overline), both orders; also with B in between
    singles = {c: [{"code": c, "vals": [b]} for b in range(256)] for c in ("A", "J", "B")}
    for order in (("A", "J"), ("J", "A"), ("A", "B", "J"), ("J", "B", "A")):
        yield {"kind": "rt_seq", "descs": [d for c in order for d in singles[c]]}
    for b in range(256):
        yield {"kind": "rt", "desc": {"code": "B", "vals": [b]}}
    mant = [0, 1, 0x400000, 0x7FFFFF]
    for e in range(0, 255, 1 if thorough else 7):
        yield {"kind": "rt", "desc": {"code": "F4", "bits": [(e << 23) | m for m in mant]}}
    for e in range(0, 2047, 1 if thorough else 31):
        yield {"kind": "rt", "desc": {"code": "F8", "bits": [(1 << 63) | (e << 52) | m for m in (0, 1, (1 << 52) - 1)]}}
    seen = set()
    fam = gen.trees(2, 2) + (gen.trees(3, 2, gen.LEAF_ALPHABET[:3]) if thorough else [])
    for t in fam:
        r = repr(t)
        if r not in seen and t["code"] == "L":
            seen.add(r)
            yield {"kind": "rt", "desc": t}
    t = {"code": "A", "vals": [0x22]}
    for _ in range(20):
        t = {"code": "L", "items": [t]}
    yield {"kind": "rt", "desc": t}
    # (2) every token string up to length n
    nmax = 6 if thorough else 5
    batch = []
    for n in range(1, nmax + 1):
        for toks in itertools.product(TOKENS, repeat=n):
            batch.append(list(toks))
            if len(batch) >= 2000:
                yield {"kind": "tokens", "batch": batch}
                batch = []
    if batch:
        yield {"kind": "tokens", "batch": batch}
    # (3) single-token mutations of valid texts
    batch = []
    for toks in valid_texts():
        for m in mutations(toks):
            batch.append(m)
    for i in range(0, len(batch), 1000):
        yield {"kind": "tokens", "batch": batch[i:i + 1000]}
    # (4) character-level damage of the same texts: every single-character deletion, every proper prefix, every single quote inserted
    texts = set()
    for toks in valid_texts():
        text = " ".join(toks)
        for i in range(len(text)):
            texts.add(text[:i] + text[i + 1:])
            texts.add(text[:i])
            for q in "\"'":
                texts.add(text[:i] + q + text[i:])
    texts = sorted(texts)
    for i in range(0, len(texts), 50):
        yield {"kind": "texts", "batch": texts[i:i + 50]}


def run(ctx):
    ctx.assumptions += [
        "round trip compares E5 bytes and the class tree of Item.from_sml(item.to_sml()) with the original item",
        "rejection oracle = ref/sml.py: a text must be rejected only when the first item (or a nested item reached without junk) lacks its "
        "closing bracket or names an unknown type; all other outcomes on arbitrary text are only required to terminate",
        "watchdog: 5 s of wall-clock per parse (SIGALRM)",
    ]
    ctx.setcov("rule", "items of the C14 families + every byte and every string up to length 3/4 over an 18-character awkward alphabet "
                       "for A and J + list trees; every token string up to length 5/6 over a 12-token alphabet; every single-token "
                       "deletion/insertion/replacement of 11 valid texts; every single-character deletion, quote insertion and proper prefix of them "
                       "(termination only); non-trivial = every case (each is a distinct text)")
    # thread-pair independence first (LINE events are switched off again before the enumeration)
    from checks import pair_ops  # noqa: PLC0415
    from mc import firstuse, pairs  # noqa: PLC0415

    # first use in a process before anything else touches the library (the workers must be pristine)
    fu_ops = [["fu_item_sml", "< L < U1 1 2 > < A \"x y\" > >"], ["fu_item_sml", "<B 0x01 0xff>"], ["fu_item_value", [True, "q"]]]
    if ctx.thorough:  # one forked child per execution: too slow for the quick tier of this check
        firstuse.run_part(ctx, fu_ops, "C15", 1)
    ops = [["sml", d] for d in pair_ops.LEAVES[:2] + pair_ops.LEAVES[3:5] + pair_ops.TREES] + [["sml_text", "< L < U1 1 2 > < A \"x y\" > >"]]
    pair_execs = pairs.run_part(ctx, ops, "C15", 1)  # (two delays over these long operations cost more than the whole enumeration)
    ctx.run_cases(check_case, cases(ctx), "c15", chunk=16)


def replay(ctx, detail):
    if isinstance(detail.get("case"), dict) and detail["case"].get("part") == "first-use":
        from mc import firstuse  # noqa: PLC0415

        firstuse.replay(ctx, detail["case"], "C15")
        return
    if isinstance(detail.get("case"), dict) and detail["case"].get("part") == "pair":
        from mc import pairs  # noqa: PLC0415

        pairs.replay_pair(ctx, detail["case"], "C15")
        return
    res = check_case(detail["case"])
    ctx.evaluations += 1
    for sig, d in res.get("v", ()):
        ctx.violation(sig, d)
