"""C02 - every valid SEMI E5 item encoding is decoded to the value it denotes.

Shape E: byte strings come from the *reference* encoder (ref/e5.py) in non-canonical mode (every
assignment of 1/2/3 length bytes to every node that can hold its length), every finite float exponent,
every catalogue data item x every format code it allows.  Oracle: get() equals the reference value and
re-encoding gives the canonical reference bytes.
"""
from __future__ import annotations

import inspect
import itertools

from checks import common_e5 as ce
from mc import gen
from ref import e5

LEVEL = "exploration"
BUDGET = {"quick": 240, "thorough": 1500}
V = ce.V


def nodes_preorder(node, acc=None):
    acc = [] if acc is None else acc
    acc.append(node)
    if node[0] == "L":
        for ch in node[1]:
            nodes_preorder(ch, acc)
    return acc


def node_len(node):
    return len(node[1]) if node[0] == "L" else len(e5.payload(node))


def encode_with(node, assignment):
    """Reference encoding where the i-th node in preorder uses assignment[i] length bytes."""
    counter = itertools.count()
    order = {}

    def pick(n, minimal):  # called in post-order by e5.enc; map by identity instead
        return order.get(id(n), minimal)

    for i, n in enumerate(nodes_preorder(node)):
        order[id(n)] = assignment[i]
    del counter
    return e5.enc(node, pick)


def assignments(node, limit_nodes):
    ns = nodes_preorder(node)
    if len(ns) > limit_nodes:
        return
    choices = []
    for n in ns:
        m = e5.min_len_bytes(node_len(n))
        choices.append([k for k in (1, 2, 3) if k >= m])
    yield from itertools.product(*choices)


def _dsig(kind, node, target, extra=""):
    code = node[0]
    return f"C02|{kind}|{code}|target={target}|{extra}"


def decode_targets(node, typed=True):
    code = node[0]
    t = []
    if code == "L":
        t.append(("Array(ANYVALUE)", lambda: V.Array(ce.anyvalue())))
        t.append(("ANYVALUE", lambda: ce.anyvalue()()))

        # the same targets on their second use: an object that already decoded another (non-empty) list and a leaf before
        def used(mk):
            def make():
                obj = mk()
                obj.decode(e5.enc(("L", [("U1", [9]), ("A", b"zz"), ("L", [("U2", [300])])])))
                return obj
            return make

        t.append(("Array(ANYVALUE)/reused", used(lambda: V.Array(ce.anyvalue()))))
        t.append(("ANYVALUE/reused", used(lambda: ce.anyvalue()())))
    else:
        if typed:
            t.append((code, lambda: ce.VCLASS[code]()))
            other = bytes([0x41, 0x42, 0x43]) if code in ("A", "J", "B") else ([True, False] if code == "BOOLEAN" else [1, 0, 1])
            t.append((code + "/reused", lambda: ce.VCLASS[code](other)))
        if code != "J":
            t.append(("ANYVALUE", lambda: ce.anyvalue()()))

            def used_any():
                obj = ce.anyvalue()()
                obj.decode(e5.enc(("L", [("U1", [9]), ("A", b"zz")])))
                return obj

            t.append(("ANYVALUE/reused", used_any))
    return t


def check_bytes(case, node, data, lbclass, typed=True):
    out = []
    canon = e5.enc(node)
    for tname, mk in decode_targets(node, typed):
        try:
            obj = mk()
            pos = obj.decode(data)
            g = obj.get()
        except Exception as exc:  # noqa: BLE001
            out.append((_dsig("decode-raises", node, tname, lbclass), {"case": case, "error": repr(exc), "bytes": data[:48], "value": ce.short(node)}))
            continue
        if pos != len(data):
            out.append((_dsig("decode-position", node, tname, lbclass), {"case": case, "got": pos, "want": len(data), "bytes": data[:48]}))
        if not ce.tree_equal(node, g):
            out.append((_dsig("decode-value", node, tname, lbclass),
                        {"case": case, "got": repr(g)[:300], "want": repr(e5.py_value(node))[:300], "bytes": data[:48]}))
        try:
            again = obj.encode()
            if again != canon:
                out.append((_dsig("reencode-not-canonical", node, tname, lbclass), {"case": case, "got": again[:64], "want": canon[:64]}))
        except Exception as exc:  # noqa: BLE001
            out.append((_dsig("reencode-raises", node, tname, lbclass), {"case": case, "error": repr(exc)}))
    return out


def check_noncanonical(case):
    node = gen.node_from_desc(case["desc"])
    out = []
    n_as = 0
    for asg in assignments(node, case.get("limit", 6)):
        data = encode_with(node, asg)
        lbclass = "lb=" + "".join(str(a) for a in asg[:4])
        minimal = all(a == e5.min_len_bytes(node_len(n)) for a, n in zip(asg, nodes_preorder(node)))
        out += check_bytes(case, node, data, "canonical" if minimal else lbclass if node[0] != "L" else "noncanonical-tree", typed=True)
        n_as += 1
    return {"v": out, "nt": n_as > 1, "cnt": {"encodings_decoded": n_as}}


def data_item_classes():
    import secsgem.secs.data_items as DI  # noqa: PLC0415,N812
    from secsgem.secs.data_items.base import DataItemBase  # noqa: PLC0415

    out = []
    for name in sorted(dir(DI)):
        o = getattr(DI, name)
        if inspect.isclass(o) and issubclass(o, DataItemBase) and o is not DataItemBase:
            out.append(o)
    return out


CODE_OF_CLASS = {v: k for k, v in ce.VCLASS.items()}


def check_data_item(case):
    import secsgem.secs.data_items as DI  # noqa: PLC0415,N812

    cls = getattr(DI, case["item"])
    code = case["code"]
    count = cls.__count__
    out = []
    n_enc = 0
    # values of this format code that respect the item's length limit
    ns = [0, 1, 2] if count < 0 else sorted({0, 1, count})
    if cls.__type__ is V.Dynamic and count > 0:
        ns = sorted({1, count})  # a 0-length dynamic item carries no usable type constraint; keep to non-empty
    for n in ns:
        if code == "L":
            node = ("L", [("U1", [i]) for i in range(n)])
        else:
            for rot in (0, 3):
                node = gen.node_from_desc({"code": code, "n": n, "rot": rot})
                for nlb in (1, 2, 3):
                    data = e5.enc(node, lambda _n, m, nlb=nlb: max(m, nlb))
                    n_enc += 1
                    out += _decode_di(case, cls, node, data, nlb)
            continue
        data = e5.enc(node)
        n_enc += 1
        out += _decode_di(case, cls, node, data, 1)
    return {"v": out, "nt": True, "cnt": {"encodings_decoded": n_enc}}


def _decode_di(case, cls, node, data, nlb):
    out = []
    name = cls.__name__
    code = node[0]
    try:
        obj = cls()
        pos = obj.decode(data)
        g = obj.get()
    except Exception as exc:  # noqa: BLE001
        return [(f"C02|data-item-rejects-allowed-format|{name}|{code}|n={len(node[1])}|lb={nlb}",
                 {"case": case, "error": repr(exc), "bytes": data[:32]})]
    if pos != len(data):
        out.append((f"C02|data-item-decode-position|{name}|{code}", {"case": case, "got": pos, "want": len(data)}))
    if not ce.tree_equal(node, g):
        out.append((f"C02|data-item-decode-value|{name}|{code}|n={len(node[1])}", {"case": case, "got": repr(g)[:200], "want": repr(e5.py_value(node))[:200]}))
    try:
        if obj.encode() != e5.enc(node):
            out.append((f"C02|data-item-reencode-not-canonical|{name}|{code}", {"case": case, "got": obj.encode()[:48], "want": e5.enc(node)[:48]}))
    except Exception as exc:  # noqa: BLE001
        out.append((f"C02|data-item-reencode-raises|{name}|{code}", {"case": case, "error": repr(exc)}))
    return out


def check_boolean_bytes(case):
    """E5: a BOOLEAN byte of zero is false, every other value is true (a foreign encoder may write 0xFF or 0x80 for true)."""
    out = []
    vals = case["bytes"]
    data = e5.enc(("BOOLEAN", [True] * len(vals)))[:-len(vals)] + bytes(vals)
    want = [b != 0 for b in vals]
    for tname, mk in (("BOOLEAN", lambda: ce.VCLASS["BOOLEAN"]()), ("ANYVALUE", lambda: ce.anyvalue()()),
                      ("in-list", lambda: V.Array(ce.anyvalue()))):
        raw = data if tname != "in-list" else b"\x01\x01" + data
        try:
            obj = mk()
            pos = obj.decode(raw)
            g = obj.get()
            if tname == "in-list":
                g = g[0]
        except Exception as exc:  # noqa: BLE001
            out.append((f"C02|boolean-byte-decode-raises|target={tname}", {"case": case, "error": repr(exc)}))
            continue
        got = [g] if isinstance(g, bool) else list(g)
        if got != want or pos != len(raw):
            out.append((f"C02|boolean-nonzero-byte-not-true|target={tname}", {"case": case, "got": got, "want": want}))
    return {"v": out, "nt": True}


def check_case(case):
    if case["kind"] == "boolbytes":
        return check_boolean_bytes(case)
    if case["kind"] == "nc":
        return check_noncanonical(case)
    if case["kind"] == "di":
        return check_data_item(case)
    raise ValueError(case["kind"])


def cases(ctx):
    thorough = ctx.thorough
    # (a) leaves x length-byte forms
    for code in gen.rotate(gen.LEAF_CODES, ctx.seed):
        counts = gen.boundary_counts(code, (0xFF, 0xFFFF))
        for d in gen.leaf_family(code, counts):
            yield {"kind": "nc", "desc": d}
    for code in ("A", "J", "B"):
        for b in range(256):
            yield {"kind": "nc", "desc": {"code": code, "vals": [b]}}
    for b in range(256):
        yield {"kind": "boolbytes", "bytes": [b]}
        yield {"kind": "boolbytes", "bytes": [0, b, 1]}
    # an empty item of every type followed by another item in one list (the cursor must not move past an empty item's end)
    for code in gen.LEAF_CODES:
        if code != "J":
            yield {"kind": "nc", "desc": {"code": "L", "items": [{"code": code, "vals": []}, {"code": "U1", "vals": [5]}, {"code": code, "vals": []}]}, "limit": 4}
    # (b) every finite float exponent x boundary mantissas
    mant4 = [0, 1, 2, 0x400000, 0x7FFFFE, 0x7FFFFF]
    mant8 = [0, 1, 2, 1 << 51, (1 << 52) - 2, (1 << 52) - 1]
    for sign in (0, 1):
        for e in range(0, 255):
            yield {"kind": "nc", "desc": {"code": "F4", "bits": [(sign << 31) | (e << 23) | m for m in mant4]}}
        for e in range(0, 2047):
            yield {"kind": "nc", "desc": {"code": "F8", "bits": [(sign << 63) | (e << 52) | m for m in mant8]}}
    # (c) trees x every assignment of length bytes
    limit = 7 if thorough else 5
    fam = gen.trees(2, 2)
    if thorough:
        fam = fam + gen.trees(3, 2, gen.LEAF_ALPHABET[:3])
    seen = set()
    for t in fam:
        r = repr(t)
        if r in seen or t["code"] != "L":
            continue
        seen.add(r)
        if len(nodes_preorder(gen.node_from_desc(t))) <= limit:
            yield {"kind": "nc", "desc": t, "limit": limit}
    for n in (255, 256):
        yield {"kind": "nc", "desc": {"code": "L", "items": [{"code": "U1", "vals": [i % 256]} for i in range(n)]}, "limit": 1}
    t = {"code": "A", "vals": [0x78]}
    for _ in range(12):
        t = {"code": "L", "items": [t]}
    yield {"kind": "nc", "desc": t, "limit": 1}
    # (d) catalogue data items x every format code they allow
    for cls in data_item_classes():
        if cls.__type__ is V.Dynamic:
            allowed = cls.__allowedtypes__
        else:
            allowed = [cls.__type__]
        for t in allowed:
            code = "L" if t is V.Array else CODE_OF_CLASS.get(t)
            if code is None:
                continue
            yield {"kind": "di", "item": cls.__name__, "code": code}


def run(ctx):
    ctx.assumptions += [
        "inputs are produced by the independent reference encoder ref/e5.py (canonical and non-canonical length bytes); "
        "byte strings the reference decoder rejects are out of scope",
        "JIS-8 items are decoded through the JIS8 class only: no catalogue item and not ANYVALUE lists J as allowed",
        "documented scalar collapse of get() adopted by the oracle",
    ]
    ctx.setcov("rule", "reference-encoded items: leaf families x 1/2/3 length bytes, every finite float exponent x boundary mantissas, "
                       "all list trees up to the bound x every assignment of length bytes to every node, every catalogue data item x every "
                       "allowed format code x lengths {0,1,2|count}; non-trivial = more than one encoding of the value was decoded "
                       "(i.e. at least one non-canonical) or a data-item/format pair")
    # thread-pair independence first (LINE events are switched off again before the enumeration)
    from checks import pair_ops  # noqa: PLC0415
    from mc import firstuse, pairs  # noqa: PLC0415

    # first use in a process before anything else touches the library (the workers must be pristine)
    fu_ops = [["dec", pair_ops.LEAVES[0], "ANYVALUE"], ["dec", pair_ops.LEAVES[2], "typed"]] + ([["dec", pair_ops.TREES[1], "ANYVALUE"]] if ctx.thorough else [])  # one forked child per execution (~16 executions/s): two operations in the quick tier
    firstuse.run_part(ctx, fu_ops, "C02", 2 if ctx.thorough else 1)
    ops = [["dec", d, "typed"] for d in pair_ops.LEAVES[:4]] + [["dec", pair_ops.LEAVES[4], "ANYVALUE"]] + [["dec", d, "ANYVALUE"] for d in pair_ops.TREES]
    pair_execs = pairs.run_part(ctx, ops, "C02", 2 if ctx.thorough else 1)
    ctx.run_cases(check_case, cases(ctx), "c02", chunk=32)
    ctx.setcov("data_item_classes", len(data_item_classes()))


def replay(ctx, detail):
    if isinstance(detail.get("case"), dict) and detail["case"].get("part") == "first-use":
        from mc import firstuse  # noqa: PLC0415

        firstuse.replay(ctx, detail["case"], "C02")
        return
    if isinstance(detail.get("case"), dict) and detail["case"].get("part") == "pair":
        from mc import pairs  # noqa: PLC0415

        pairs.replay_pair(ctx, detail["case"], "C02")
        return
    res = check_case(detail["case"])
    ctx.evaluations += 1
    for sig, d in res.get("v", ()):
        ctx.violation(sig, d)
