"""C06 - replies reach exactly their requester; other messages are delivered once, one at a time, in order.

Shape S: schedule exploration (delay-bounded, line-level scheduling points in the racy region) of the real
HsmsProtocol with concurrent application threads, a peer thread with an enumerated reply behaviour
(now / after the other's / after the T3 deadline / never) and unsolicited primaries, also across a reconnect.
"""
from __future__ import annotations

from checks import hsms_harness as hh
from mc import explore, vrt
from ref import e5, e37

LEVEL = "model_checking"
BUDGET = {"quick": 300, "thorough": 2400}

REGION = [
    "secsgem.secsi.protocol:SecsIProtocol._on_connection_message_received",
    "secsgem.common.protocol:Protocol.get_next_system_counter",
    "secsgem.common.protocol:Protocol.send_and_waitfor_response",
    "secsgem.common.protocol:Protocol._get_queue_for_system",
    "secsgem.common.protocol:Protocol._remove_queue",
    "secsgem.common.protocol:Protocol.send_message",
    "secsgem.common.protocol:Protocol._dispatch_block",
    "secsgem.common.protocol:Protocol._on_connection_data_received",
    "secsgem.hsms.protocol:HsmsProtocol._on_connection_message_received",
    "secsgem.hsms.protocol:HsmsProtocol._process_received_data",
    "secsgem.common.protocol_dispatcher:ProtocolDispatcher.*",
    "secsgem.common.block_send_info:BlockSendInfo.*",
]

T3 = 45.0


def reply_body(ident):
    return e5.enc(("L", [("U4", [ident])]))


def unsol_frame(k):
    # S9F1 (unrecognised device id) carries a 10-byte binary MHEAD: a well-formed, catalogued primary without reply
    return e37.data(9, 1, False, 0x60000 + k, e5.enc(("B", bytes([k + 1] * 10))))


def driver_factory(cfg):
    ncallers = cfg.get("callers", 2)
    nunsol = cfg.get("unsolicited", 2)
    reconnect = cfg.get("reconnect", False)

    def driver(s):
        ep = hh.Endpoint(active=False, t3=T3)
        proto = ep.protocol
        obs = {"callers": {}, "cb": [], "wire_requests": [], "notes": []}
        s.obs = obs
        depth = [0]

        def on_msg(data):
            m = data["message"]
            depth[0] += 1
            obs["cb"].append(("enter", m.header.system, depth[0], m.header.stream, m.header.function, bytes(m.data)))
            s.point("callback")
            obs["cb"].append(("exit", m.header.system, depth[0]))
            depth[0] -= 1

        proto.events.message_received += on_msg
        if not hh.select_passive(s, ep):
            obs["notes"].append("not selected")
            return
        if reconnect == "busy":
            # a message handler is still running when the link is lost and comes back: the old dispatcher must not
            # serve the new connection together with the new one
            gate = vrt.Event()
            busy = {"n": 0}

            def slow(data):
                if busy["n"] == 0:
                    busy["n"] = 1
                    gate.wait(30.0)

            proto.events.message_received += slow
            ep.conn.peer_send(unsol_frame(7))
            s.settle()
            ep.conn.peer_close()
            s.settle()
            ep.reset_wire()
            ep.conn.peer_connect()
            s.settle()
            ep.conn.peer_send(e37.control(e37.SELECT_REQ, 0x7002))
            s.settle()
            gate.set()
            s.settle()
            ep.pump()
            obs["cb"].clear()
            if ep.state() != "CONNECTED_SELECTED":
                obs["notes"].append("not selected after reconnect")
                return
        elif reconnect:
            # lose the link once and select again: a second generation of protocol threads
            ep.conn.peer_close()
            s.settle()
            ep.reset_wire()
            ep.conn.peer_connect()
            s.settle()
            ep.conn.peer_send(e37.control(e37.SELECT_REQ, 0x7002))
            s.settle()
            ep.pump()
            if ep.state() != "CONNECTED_SELECTED":
                obs["notes"].append("not selected after reconnect")
                return
        sf = ep.settings.streams_functions
        done = []

        def caller(i):
            fn = sf.function(1, 3)([100 + i])
            obs["callers"][i] = {"start": s.steps, "t_start": s.clock}
            r = proto.send_and_waitfor_response(fn)
            c = obs["callers"][i]
            c["end"] = s.steps
            c["t_end"] = s.clock
            if r is None:
                c["result"] = None
            else:
                c["result"] = {"system": r.header.system, "stream": r.header.stream, "function": r.header.function, "body": bytes(r.data)}
            done.append(i)

        threads = [vrt.Thread(target=caller, args=(i,), name=f"caller-{i}") for i in range(ncallers)]
        if cfg.get("send_faults"):
            ep.conn.send_fault_menu = True

        def peer():
            deferred = []
            late = []
            handled = 0
            unsol_sent = 0
            while True:
                s.block(lambda: len(ep.conn.sent) > ep._sent_seen or len(done) == ncallers, None, "peer-wait")
                new = [f for f in ep.pump() if f["stype"] == 0 and f["w"]]
                for f in new:
                    try:
                        node, _ = e5.dec(f["body"])
                        ident = node[1][0][1][0]
                    except Exception:  # noqa: BLE001
                        ident = None
                    obs["wire_requests"].append({"system": f["system"], "ident": ident, "t": f["t"], "step": s.steps})
                    if unsol_sent < nunsol:
                        # an unsolicited primary arrives before the reply
                        ep.conn.peer_send(unsol_frame(unsol_sent))
                        unsol_sent += 1
                    c = s.choose(5 if cfg.get("second_round") else 4, "env")
                    rep = e37.data(1, 4, False, f["system"], reply_body(ident if ident is not None else 0))
                    if c == 0:
                        ep.conn.peer_send(rep)
                        obs.setdefault("replied", []).append((f["system"], "now", s.clock))
                        for d in deferred:
                            ep.conn.peer_send(d[1])
                            obs["replied"].append((d[0], "deferred", s.clock))
                        deferred.clear()
                    elif c == 1:
                        deferred.append((f["system"], rep))
                    elif c == 2:
                        late.append((f["system"], rep, f["t"], 1.0, "late"))
                    elif c == 4:
                        # written at the very instant the caller's T3 runs out: the caller may get it or time out, nothing else may change
                        late.append((f["system"], rep, f["t"], 0.0, "at-deadline"))
                    else:
                        obs.setdefault("never", []).append(f["system"])
                    handled += 1
                if handled >= ncallers or len(done) == ncallers:
                    break
            for d in deferred:
                ep.conn.peer_send(d[1])
                obs.setdefault("replied", []).append((d[0], "deferred-end", s.clock))
            while unsol_sent < nunsol:
                ep.conn.peer_send(unsol_frame(unsol_sent))
                unsol_sent += 1
            for sysb, rep, t, extra, label in sorted(late, key=lambda x: x[2] + x[3]):
                vrt.vtime.sleep(max(0.0, t + T3 + extra - s.clock))
                ep.conn.peer_send(rep)
                obs.setdefault("replied", []).append((sysb, label, s.clock))

        pt = vrt.Thread(target=peer, name="peer")
        for t in threads:
            t.start()
        pt.start()
        for t in threads:
            t.join()
        pt.join()
        s.settle()
        ep.pump()
        if cfg.get("second_round"):
            # every transaction of the first round is over; one more request, answered at once: it gets its own reply, whatever the
            # first round left behind
            n = ncallers
            t2 = vrt.Thread(target=caller, args=(n,), name=f"caller-{n}")
            t2.start()
            s.block(lambda: len(ep.conn.sent) > ep._sent_seen or n in done, None, "second-round-wait")
            for f in [f for f in ep.pump() if f["stype"] == 0 and f["w"]]:
                obs["wire_requests"].append({"system": f["system"], "ident": 100 + n, "t": f["t"], "step": s.steps, "round": 2})
                ep.conn.peer_send(e37.data(1, 4, False, f["system"], reply_body(100 + n)))
                obs.setdefault("replied", []).append((f["system"], "now", s.clock))
            t2.join()
            s.settle()
            ep.pump()
        ep.conn.send_fault_menu = False
        obs["failed_sends"] = len(ep.conn.failed_sends)
        # every transaction of this side is over (answered, or timed out): the peer's own transaction counter is independent, so it may
        # use the same system bytes for primaries of its own - "every other inbound data message is handed to the application"
        obs["reuse"] = [r["system"] for r in obs["wire_requests"]]
        for k, sysb in enumerate(obs["reuse"]):
            ep.conn.peer_send(e37.data(9, 1, False, sysb, e5.enc(("B", bytes([0xE0 + k] * 10)))))
        s.settle()
        ep.pump()
        obs["threads_alive"] = sorted(t.name.split("_")[2] if t.name.startswith("secsgem_HSMS") else t.name
                                      for t in s.threads if t.state != vrt.DONE and t is not s.current)

    return driver


def driver_secsi_factory(cfg):
    """The same property on the SECS-I transport: two real SecsIProtocol objects on a virtual line; the host side has
    concurrent requesters, the equipment side answers from its dispatcher thread (order chosen by the explorer) and sends
    unsolicited primaries."""
    ncallers = cfg.get("callers", 2)
    nunsol = cfg.get("unsolicited", 2)

    def driver(s):
        from checks import c17  # noqa: PLC0415
        from mc import env  # noqa: PLC0415
        import secsgem.common  # noqa: PLC0415
        import secsgem.secsi  # noqa: PLC0415
        import secsgem.secsi.message as sm  # noqa: PLC0415

        hs = c17.secsi_settings(secsgem.common.DeviceType.HOST)
        es = c17.secsi_settings(secsgem.common.DeviceType.EQUIPMENT)
        host = secsgem.secsi.SecsIProtocol(hs)
        eq = secsgem.secsi.SecsIProtocol(es)
        obs = {"callers": {}, "cb": [], "wire_requests": [], "notes": [], "replied": []}
        s.obs = obs
        depth = [0]

        def on_host_msg(data):
            m = data["message"]
            depth[0] += 1
            obs["cb"].append(("enter", m.header.system, depth[0], m.header.stream, m.header.function, bytes(m.data)))
            s.point("callback")
            obs["cb"].append(("exit", m.header.system, depth[0]))
            depth[0] -= 1

        host.events.message_received += on_host_msg
        pending = []

        def reply_to(m):
            try:
                node, _ = e5.dec(bytes(m.data))
                ident = node[1][0][1][0]
            except Exception:  # noqa: BLE001
                ident = 0
            hdr = secsgem.secsi.SecsIHeader(m.header.system, 0, 1, 4, 0, True, False, True)
            eq.send_message(sm.SecsIMessage(hdr, reply_body(ident)))
            obs["replied"].append((m.header.system, "now", s.clock))

        unsol = [0]

        def on_eq_msg(data):
            m = data["message"]
            try:
                node, _ = e5.dec(bytes(m.data))
                ident = node[1][0][1][0]
            except Exception:  # noqa: BLE001
                ident = None
            obs["wire_requests"].append({"system": m.header.system, "ident": ident, "t": s.clock, "step": s.steps})
            if unsol[0] < nunsol:
                k = unsol[0]
                unsol[0] += 1
                hdr = secsgem.secsi.SecsIHeader(0x60000 + k, 0, 9, 1, 0, True, False, True)
                eq.send_message(sm.SecsIMessage(hdr, e5.enc(("B", bytes([k + 1] * 10)))))
            c = s.choose(2, "env")
            if c == 0:
                reply_to(m)
                for p in pending:
                    reply_to(p)
                pending.clear()
            else:
                pending.append(m)  # answered after the next request's reply (or at the end)

        eq.events.message_received += on_eq_msg
        host.enable()
        eq.enable()
        link = env.Link(hs.loop, es.loop)
        link.connect()
        s.settle()
        sf = hs.streams_functions
        done = []

        def caller(i):
            fn = sf.function(1, 3)([100 + i])
            obs["callers"][i] = {"start": s.steps, "t_start": s.clock}
            r = host.send_and_waitfor_response(fn)
            c = obs["callers"][i]
            c["end"] = s.steps
            c["result"] = None if r is None else {"system": r.header.system, "stream": r.header.stream, "function": r.header.function, "body": bytes(r.data)}
            done.append(i)

        threads = [vrt.Thread(target=caller, args=(i,), name=f"caller-{i}") for i in range(ncallers)]
        for t in threads:
            t.start()
        s.settle()
        if pending:
            # late but in time: flushed by a helper thread on the equipment side
            def flush():
                for p in list(pending):
                    reply_to(p)
                pending.clear()

            ft = vrt.Thread(target=flush, name="eq-flush")
            ft.start()
            ft.join()
        for t in threads:
            t.join()
        s.settle()
        obs["threads_alive"] = []

    return driver


def oracle(obs, cfg, sched):
    """Violations of the statement visible in one execution."""
    out = []
    ncallers = cfg.get("callers", 2)
    if obs.get("notes"):
        return [("C06|setup|" + obs["notes"][0], {"obs": obs})]
    callers = obs["callers"]
    reqs = obs["wire_requests"]
    by_ident = {}
    for r in reqs:
        by_ident.setdefault(r["ident"], []).append(r)
    # (1) system bytes of simultaneously outstanding requests pairwise distinct
    systems = [r["system"] for r in reqs]
    if len(set(systems)) != len(systems):
        out.append(("C06|duplicate-system-bytes-among-outstanding-requests", {"requests": reqs}))
    replied = {sysb: (how, t) for sysb, how, t in obs.get("replied", [])}
    for i in range(ncallers + (1 if cfg.get("second_round") else 0)):
        c = callers.get(i)
        if c is None or "end" not in c:
            out.append((f"C06|caller-did-not-return|outcome={sched.outcome}", {"caller": i}))
            continue
        mine = by_ident.get(100 + i, [])
        if not mine and obs.get("failed_sends") and c.get("result") is None:
            continue  # its request was the write the environment failed: failure reported, nothing on the wire
        if len(mine) != 1:
            out.append((f"C06|request-frames-for-caller={len(mine)}", {"caller": i, "requests": reqs}))
            continue
        sysb = mine[0]["system"]
        res = c["result"]
        how = replied.get(sysb)
        # in time = written by the peer before the caller's T3 ran out (a reply the peer only flushes when everybody has given up, at the very
        # instant of the time-out, is causally after it)
        in_time = how is not None and how[0] != "late" and how[1] < mine[0]["t"] + T3 - 1e-9
        dup_sys = systems.count(sysb) > 1
        if how is not None and how[0] == "at-deadline" and (res is None or (res["body"] == reply_body(100 + i) and res["system"] == sysb)):
            continue  # written at the instant of the time-out: both outcomes are in order
        if res is None:
            if in_time and not dup_sys:
                out.append((f"C06|caller-timed-out-although-reply-arrived|{how[0]}", {"caller": i, "system": sysb, "obs_replied": obs.get("replied")}))
        else:
            if res["body"] != reply_body(100 + i) or res["system"] != sysb or (res["stream"], res["function"]) != (1, 4):
                out.append(("C06|caller-got-foreign-reply", {"caller": i, "system": sysb, "result": res}))
            elif not in_time:
                out.append(("C06|caller-got-reply-that-never-arrived-in-time", {"caller": i, "result": res, "how": how}))
    # (2) unsolicited primaries: exactly once, one at a time, in arrival order
    enters = [e for e in obs["cb"] if e[0] == "enter" and e[3] == 9]
    seq = [e[1] for e in enters]
    want = [0x60000 + k for k in range(cfg.get("unsolicited", 2))]
    if len(set(systems)) == len(systems):
        want += obs.get("reuse", [])
    if sorted(seq) != sorted(want) and sorted(x for x in seq if x >= 0x60000) == sorted(x for x in want if x >= 0x60000):
        out.append(("C06|primary-reusing-system-bytes-of-a-finished-request-not-delivered-once", {"got": seq, "want": want,
                                                                                                  "finished": obs.get("replied"), "never": obs.get("never")}))
    elif sorted(seq) != sorted(want):
        out.append((f"C06|unsolicited-delivery-count|got={len(seq)}|want={len(want)}", {"got": seq, "want": want}))
    elif seq != want:
        out.append(("C06|unsolicited-delivered-out-of-order", {"got": seq, "want": want}))
    if any(e[0] == "enter" and e[2] > 1 for e in obs["cb"]):
        out.append(("C06|callbacks-overlap", {"cb": [e[:3] for e in obs["cb"]]}))
    return out


def obs_key(obs):
    callers = obs.get("callers", {})
    return {
        "results": {str(i): (None if c.get("result") is None else c["result"]["body"].hex()) for i, c in sorted(callers.items())},
        "cb": [e[1] for e in obs.get("cb", []) if e[0] == "enter"],
        "systems": sorted(r["system"] for r in obs.get("wire_requests", [])),
        "replied": sorted((h for _, h, _ in obs.get("replied", []))),
        "alive": obs.get("threads_alive"),
    }


def run_one(devs, budgets, cfg=None, traced=True):
    cfg = cfg or {}
    drv = driver_secsi_factory(cfg) if cfg.get("transport") == "secsi" else driver_factory(cfg)
    sched = vrt.run(drv, devs, budgets, rand=[cfg.get("counter", 0)], max_steps=60000, max_time=600.0, line_points=traced)
    obs = getattr(sched, "obs", {"notes": ["driver did not start"]})
    res = {"trace": sched.trace, "obs": obs_key(obs), "v": []}
    if sched.harness_failure:
        res["harness"] = sched.harness_failure[-800:]
        return res
    if sched.outcome != "done":
        res["v"].append((f"C06|execution-{sched.outcome}", {"info": sched.deadlock_info, "case": {"cfg": cfg}}))
    if sched.driver_exception:
        res["harness"] = sched.driver_exception[-800:]
    for sig, detail in oracle(obs, cfg, sched):
        detail["case"] = {"cfg": cfg}
        res["v"].append((sig, detail))
    return res


CONFIGS_QUICK = [
    ({"callers": 2, "unsolicited": 2, "counter": 0}, {"sched": 2, "env": 1}),
    ({"callers": 2, "unsolicited": 2, "counter": 0xFFFFFFFE}, {"sched": 1, "env": 1}),
    ({"callers": 2, "unsolicited": 2, "counter": 5, "reconnect": True}, {"sched": 1, "env": 0}),
    ({"callers": 2, "unsolicited": 2, "counter": 5, "reconnect": "busy"}, {"sched": 1, "env": 0}),
    # SECS-I: reply orders only.  Schedules with delays make both ends transmit at once (line contention), which the
    # statement of the line protocol (C17) excludes and which the library does not survive (see DESIGN.md 7.3).
    ({"callers": 2, "unsolicited": 2, "counter": 9, "transport": "secsi"}, {"sched": 0, "env": 2}),
    ({"callers": 3, "unsolicited": 1, "counter": 3, "send_faults": True}, {"sched": 1, "env": 1}),
    # a reply written at the instant its caller's T3 runs out, then a second round: one more request after everything is over
    ({"callers": 2, "unsolicited": 0, "counter": 7, "second_round": True}, {"sched": 1, "env": 1}),
]
CONFIGS_THOROUGH = [
    ({"callers": 2, "unsolicited": 1, "counter": 7, "second_round": True}, {"sched": 2, "env": 2}),
    ({"callers": 2, "unsolicited": 2, "counter": 0}, {"sched": 3, "env": 2}),
    ({"callers": 3, "unsolicited": 2, "counter": 0xFFFFFFFD}, {"sched": 2, "env": 2}),
    ({"callers": 2, "unsolicited": 3, "counter": 5, "reconnect": True}, {"sched": 2, "env": 1}),
    ({"callers": 3, "unsolicited": 2, "counter": 9, "transport": "secsi"}, {"sched": 0, "env": 3}),
    ({"callers": 2, "unsolicited": 3, "counter": 5, "reconnect": "busy"}, {"sched": 2, "env": 1}),
    ({"callers": 3, "unsolicited": 1, "counter": 3, "send_faults": True}, {"sched": 2, "env": 2}),
]


def run(ctx):
    missing = hh.trace_region(REGION)
    if missing:
        ctx.note(f"racy-region functions not found (not line-traced): {missing}")
    ctx.assumptions += [
        "a source line of the listed racy region is the atom of interleaving (finer than CPython 3.12's GIL switch points)",
        "in-memory LoopConnection raises connection events from the same thread roles as TcpConnection",
        "deviation-bounded: all schedules with <= K delays and <= E non-default peer answers; bounds completed are listed",
    ]
    states = transitions = traces = 0
    # thorough = everything the quick tier does, then the deeper configurations, each with an equal share of the remaining budget
    configs = (CONFIGS_QUICK + CONFIGS_THOROUGH) if ctx.thorough else CONFIGS_QUICK
    allstats = []
    for idx, (cfg, budgets) in enumerate(configs):
        with ctx.time_slice(len(configs) - idx):
            st = explore.explore(ctx, run_one, budgets, f"c06{cfg}", opts={"cfg": cfg})
        allstats.append({"cfg": cfg, "budgets": budgets, **st})
        traces += st["executions"]
        states += st["distinct_outcomes"]
        transitions += st["executions"] * max(1, st.get("choice_points_per_execution", {}).get("median", 1))
        if st["levels_completed"] < sum(budgets.values()):
            ctx.exhaustive = False
    ctx.setcov("states", states)
    ctx.setcov("transitions", transitions)
    ctx.setcov("traces_validated_against_impl", traces)
    ctx.setcov("explorations", allstats)
    ctx.setcov("states_meaning", "distinct observed end outcomes (caller results, delivery order, system bytes, live threads) over all executions")
    ctx.setcov("transitions_meaning", "executions x median offered choice points per execution (scheduling steps taken under the explorer)")
    ctx.sample({"driver": "2 callers + peer + 2 unsolicited primaries on a SELECTED passive HsmsProtocol", "first_outcomes": allstats[0]["outcomes"][:2]})


def replay(ctx, detail):
    hh.trace_region(REGION)
    case = detail["case"]
    devs = {int(k): v for k, v in case.get("devs", {}).items()}
    r1 = run_one(devs, case["budgets"], cfg=case["cfg"])
    r2 = run_one(devs, case["budgets"], cfg=case["cfg"])
    ctx.evaluations += 2
    if r1["obs"] != r2["obs"]:
        ctx.harness_error("replay not deterministic")
    for sig, d in r1["v"]:
        ctx.violation(sig, d)
    print("replayed outcome:", r1["obs"])
