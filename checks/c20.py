"""C20 - a secsgem host and equipment always reach communication and agree on data.

Shape S: a real GemHostHandler and a real GemEquipmentHandler, each on a real HsmsProtocol, joined by an
in-memory link; configurations: which side is active x enable order x equipment initial control state;
script: both reach COMMUNICATING within the bound, every host service call returns what the equipment's own
tables hold, a triggered enabled event reaches the host exactly once, and after disabling/re-enabling either
side all of that holds again.  Explored under every schedule with <= K delays at the runtime's operations
(13+ threads, no line tracing) and <= C segment cuts.
"""
from __future__ import annotations

from mc import explore, loader, vrt

loader.install_shims()
from mc import env  # noqa: E402

import secsgem.common  # noqa: E402
import secsgem.gem  # noqa: E402
import secsgem.hsms  # noqa: E402
import secsgem.secs.variables as V  # noqa: E402,N812

vrt.trace_spin_loops(vrt.SPIN_MODULES)

LEVEL = "model_checking"
BUDGET = {"quick": 480, "thorough": 3000}

T3, T5, T6, DELAY = 45.0, 10.0, 5.0, 10
PACE = 0.001  # virtual seconds between two segments of one write when the link is paced
BOUND = T5 + T6 + 2 * (T3 + DELAY)


# the check-then-act code between an application thread waiting for COMMUNICATING and the thread performing the transition
REGION = [
    "secsgem.gem.handler:GemHandler.waitfor_communicating",
    "secsgem.gem.handler:GemHandler._on_state_communicating",
]


def build(host_active, eq_initial, transport="loop"):
    if transport == "tcp":
        # the real TcpClientConnection / TcpServerConnection of both handlers over the kernel model (mc/vnet.py)
        def mk(active, dt):
            mode = secsgem.hsms.HsmsConnectMode.ACTIVE if active else secsgem.hsms.HsmsConnectMode.PASSIVE
            return secsgem.hsms.HsmsSettings(connect_mode=mode, address="10.0.0.20", port=5020, device_type=dt, t3=T3, t5=T5, t6=T6,
                                             establish_communication_timeout=DELAY)

        hs = mk(host_active, secsgem.common.DeviceType.HOST)
        es = mk(not host_active, secsgem.common.DeviceType.EQUIPMENT)
    else:
        hs = env.hsms_settings(active=host_active, device_type=secsgem.common.DeviceType.HOST, t3=T3, t5=T5, t6=T6, establish_communication_timeout=DELAY)
        es = env.hsms_settings(active=not host_active, device_type=secsgem.common.DeviceType.EQUIPMENT, t3=T3, t5=T5, t6=T6,
                               establish_communication_timeout=DELAY)
    host = secsgem.gem.GemHostHandler(hs)
    eq = secsgem.gem.GemEquipmentHandler(es, initial_control_state=eq_initial, initial_online_control_state="REMOTE")
    sv = secsgem.gem.StatusVariable(10, "sv10", "u", V.U4, False)
    sv.value = 5
    eq.status_variables[10] = sv
    dv = secsgem.gem.DataValue(30, "dv30", V.String, False)
    dv.value = "x"
    eq.data_values[30] = dv
    eq.equipment_constants[20] = secsgem.gem.EquipmentConstant(20, "ec20", 0, 10, 5, "mm", V.I2)
    eq.equipment_constants[21] = secsgem.gem.EquipmentConstant(21, "ec21", 0, 100, 50, "", V.U1)
    eq.alarms[25] = secsgem.gem.Alarm(25, "alarm25", "text25", 1, 100025, 200025)
    eq.collection_events[50] = secsgem.gem.CollectionEvent(50, "ce50", [30])
    eq.collection_events[51] = secsgem.gem.CollectionEvent(51, "ce51", [30])
    return host, eq, hs, es


def val(x):
    g = getattr(x, "get", None)
    return g() if callable(g) else x


def run_one(devs, budgets, host_active=True, order="host-first", eq_initial="ONLINE", phase="full", cuts=False, paced=False, transport="loop"):
    box = {"steps": [], "bad": []}

    def driver(s):
        if transport == "tcp":
            from mc import vnet  # noqa: PLC0415

            vnet.kernel()
        host, eq, hs, es = build(host_active, eq_initial, transport)
        received = []
        host.events.collection_event_received += lambda d: received.append((val(d["ceid"]), val(d["rptid"]), [(v["dvid"], v["value"]) for v in d["values"]]))
        # create the connections and join them
        host.protocol._connection  # noqa: B018
        eq.protocol._connection  # noqa: B018
        if transport != "tcp":
            link = env.Link(hs.loop, es.loop, chunk_menu=cuts)
            if paced:
                hs.loop.pace = es.loop.pace = PACE
            env.autoconnect(link)
        step = box["steps"].append
        bad = box["bad"].append

        def both_communicating(tag):
            t0 = s.clock
            a = host.waitfor_communicating(BOUND)
            b = eq.waitfor_communicating(max(0.0, BOUND - (s.clock - t0)))
            step((tag, a, b, round(s.clock - t0, 3)))
            if not (a and b):
                bad((f"not-communicating|{tag}|host={a}|equipment={b}", {"waited": round(s.clock - t0, 3), "host": host.communication_state.current.name,
                                                                       "eq": eq.communication_state.current.name,
                                                                       "hsms": [host.protocol.connection_state.current.name, eq.protocol.connection_state.current.name]}))
            return a and b

        def expect(name, got, want):
            if got != want:
                bad((f"service-call|{name}", {"got": repr(got)[:200], "want": repr(want)[:200]}))

        def services(tag):
            code = {"EQUIPMENT_OFFLINE": 1, "ATTEMPT_ONLINE": 2, "HOST_OFFLINE": 3, "ONLINE_LOCAL": 4, "ONLINE_REMOTE": 5}
            r = host.request_svs([10, 1002])
            expect(f"request_svs|{tag}", None if r is None else r.get(), [eq.status_variables[10].value, code.get(eq.control_state.current.name)])
            r = host.list_svs()
            expect(f"list_svs|{tag}", None if r is None else [x["SVID"] for x in r.get()], list(eq.status_variables.keys()))
            r = host.request_ecs([20])
            expect(f"request_ecs|{tag}", None if r is None else r.get(), [eq.equipment_constants[20].value])
            new = 7 if eq.equipment_constants[20].value != 7 else 3
            r = host.set_ec(20, new)
            expect(f"set_ec-ack|{tag}", r, 0)
            expect(f"set_ec-applied|{tag}", eq.equipment_constants[20].value, new)
            # a request naming two constants whose second value is out of range is refused and changes nothing
            r = host.set_ecs([[20, 4 if new != 4 else 6], [21, 101]])
            if r == 0:
                bad((f"service-call|set_ecs-accepts-out-of-range|{tag}", {"got": r}))
            expect(f"set_ecs-refused-but-applied|{tag}", [eq.equipment_constants[20].value, eq.equipment_constants[21].value], [new, 50])
            r = host.request_ecs([20, 21])
            expect(f"request_ecs-after-refusal|{tag}", None if r is None else r.get(), [new, 50])
            r = host.list_ecs([20])
            expect(f"list_ecs|{tag}", None if r is None else [(x["ECID"], x["ECNAME"], x["ECMIN"], x["ECMAX"], x["ECDEF"]) for x in r.get()],
                   [(20, "ec20", 0, 10, 5)])
            r = host.list_alarms()
            expect(f"list_alarms|{tag}", None if r is None else [(x["ALID"], x["ALTX"], x["ALCD"] & 0x7F) for x in r], [(25, "text25", 1)])
            r = host.enable_alarm(25)
            expect(f"enable_alarm-ack|{tag}", r, 0)
            expect(f"enable_alarm-applied|{tag}", eq.alarms[25].enabled, True)
            r = host.list_enabled_alarms()
            expect(f"list_enabled_alarms|{tag}", None if r is None else [x["ALID"] for x in r], [25])

        def control(tag):
            if eq.control_state.current.name.startswith("ONLINE"):
                r = host.go_offline()
                expect(f"go_offline-ack|{tag}", r, 0)
                expect(f"go_offline-state|{tag}", eq.control_state.current.name, "HOST_OFFLINE")
            if eq.control_state.current.name == "HOST_OFFLINE":
                r = host.go_online()
                expect(f"go_online-ack|{tag}", r, 0)
                expect(f"go_online-state|{tag}", eq.control_state.current.name, "ONLINE_REMOTE")
            r = host.send_remote_command("START", [])
            expect(f"remote_command-ack|{tag}", None if r is None else val(r.HCACK), 4)

        def event(tag, subscribe, rptid=1001):
            if subscribe:
                host.subscribe_collection_event(50, [30], report_id=rptid)
                # a second event, linked and then disabled again (S2F37 CEED = False for it only): never reported, and it must not
                # keep the events named after it in one trigger call from being reported
                host.subscribe_collection_event(51, [30], report_id=rptid + 500)
                r = host.send_and_waitfor_response(host.stream_function(2, 37)({"CEED": False, "CEID": [51]}))
                if r is None:
                    bad((f"service-call|disable-event-51|{tag}", {}))
            n0 = len(received)
            eq.trigger_collection_events([51, 50])
            # the event report is sent by its own thread: wait (virtual time) until it is acknowledged or T3 passed
            s.block(lambda: len(received) > n0, s.clock + T3 + 1, "wait event")
            s.settle()
            got = received[n0:]
            if len(got) != 1:
                bad((f"event-delivery-count={len(got)}|{tag}", {"got": got}))
            elif got[0] != (50, rptid, [(30, "x")]):
                bad((f"event-content|{tag}", {"got": got}))

        first, second = (host, eq) if order == "host-first" else (eq, host)
        if phase == "subrace":
            s.frozen = True  # the delays belong to the subscription, not to the start-up
        first.enable()
        second.enable()
        if not both_communicating("start"):
            return
        if phase == "handshake":
            return
        if phase == "subrace":
            # the equipment triggers the event the moment the host's request has enabled it - the host is still inside its subscribe call.
            # "every collection event triggered while it is enabled reaches the host exactly once"
            n0 = len(received)

            # (the first two transactions of the subscription - define report, link event - run under the default schedule: the choices
            # start when the equipment begins to handle the enable request)
            inner = eq._on_s02f37

            def on_s02f37(handler, message):
                s.frozen = False
                return inner(handler, message)

            eq.register_stream_function(2, 37, on_s02f37)

            def trigger_when_enabled():
                s.block(lambda: getattr(eq.registered_collection_events.get(50), "enabled", False), s.clock + 3 * T3, "wait enabled")
                if getattr(eq.registered_collection_events.get(50), "enabled", False):
                    eq.trigger_collection_events([50])

            t = vrt.Thread(target=trigger_when_enabled, name="equipment-application")
            t.start()
            host.subscribe_collection_event(50, [30], report_id=1000)
            t.join()
            s.block(lambda: len(received) > n0, s.clock + T3 + 1, "wait event")
            s.settle()
            got = received[n0:]
            if len(got) != 1:
                bad((f"event-delivery-count={len(got)}|triggered-while-the-host-subscribes", {"got": got}))
            elif got[0] != (50, 1000, [(30, "x")]):
                bad(("event-content|triggered-while-the-host-subscribes", {"got": got}))
            host.disable()
            eq.disable()
            step(("end",))
            return
        services("first")
        event("first", True, 1000)
        # drop every subscription, subscribe the same event again: the event must arrive exactly once, with the new report only
        # (a second report for the same event first: "drop every subscription" has two reports to remove from one event)
        host.subscribe_collection_event(50, [30], report_id=1100)
        host.clear_collection_events()
        event("resubscribed", True)
        if phase == "midflight":
            # either side is disabled while a message to it is on the wire (one segment delivered, the next still under way), re-enabled:
            # communication again, and everything holds again
            eq.trigger_collection_events([50])
            s.block(lambda: False, s.clock + PACE / 2, "half a segment gap")
            host.disable()
            step(("host-disabled-midflight", host.communication_state.current.name))
            s.block(lambda: False, s.clock + T3 + 1, "let the unanswered event report time out")
            host.enable()
            if both_communicating("host-restart-midflight"):
                services("after-host-restart-midflight")
                event("after-host-restart-midflight", False)
            res = {}
            t = vrt.Thread(target=lambda: res.update(r=host.request_svs([10])), name="host-call")
            t.start()
            s.block(lambda: False, s.clock + PACE / 2, "half a segment gap")
            eq.disable()
            step(("eq-disabled-midflight", eq.communication_state.current.name))
            t.join(T3 + 5)
            eq.enable()
            if both_communicating("eq-restart-midflight"):
                services("after-eq-restart-midflight")
                event("after-eq-restart-midflight", False)
            host.disable()
            eq.disable()
            step(("end",))
            return
        control("first")
        if phase == "full":
            host.disable()
            step(("host-disabled", host.communication_state.current.name))
            host.enable()
            if both_communicating("host-restart"):
                services("after-host-restart")
                event("after-host-restart", False)
            eq.disable()
            step(("eq-disabled", eq.communication_state.current.name))
            eq.enable()
            if both_communicating("eq-restart"):
                services("after-eq-restart")
                event("after-eq-restart", False)
        host.disable()
        eq.disable()
        step(("end",))

    sched = vrt.run(driver, devs, budgets, max_steps=2_000_000, max_time=20000.0, line_points=(phase == "handshake"))
    res = {"trace": sched.trace, "v": []}
    case = {"host_active": host_active, "order": order, "eq_initial": eq_initial, "phase": phase, "cuts": cuts, "paced": paced, "transport": transport}
    if sched.harness_failure or (sched.driver_exception and "HarnessError" in sched.driver_exception):
        res["harness"] = (sched.harness_failure or sched.driver_exception)[-1500:]
        res["obs"] = None
        return res
    cfg = f"{'host' if host_active else 'equipment'}-active|{order}|{eq_initial}"
    res["obs"] = {"outcome": sched.outcome, "bad": [b[0] for b in box["bad"]], "steps": len(box["steps"])}
    if sched.driver_exception:
        last = sched.driver_exception.strip().splitlines()[-1][:120]
        res["v"].append((f"C20|host-api-raised|{_last_step(box)}|{last.split(':')[0]}", {"case": case, "trace": sched.driver_exception[-1200:], "steps": box["steps"]}))
    elif sched.outcome != "done":
        res["v"].append((f"C20|hang|{sched.outcome}|after={_last_step(box)}|{cfg}", {"case": case, "info": sched.deadlock_info, "steps": box["steps"]}))
    for sig, d in box["bad"]:
        res["v"].append((f"C20|{sig}", {"case": case, **d, "steps": box["steps"]}))
    return res


def _last_step(box):
    return box["steps"][-1][0] if box["steps"] else "start"


def configs(thorough):
    out = []
    for host_active in (True, False):
        for order in ("host-first", "equipment-first"):
            for eq_initial in ("ONLINE", "HOST_OFFLINE") + (("EQUIPMENT_OFFLINE", "ATTEMPT_ONLINE") if thorough else ()):
                out.append({"host_active": host_active, "order": order, "eq_initial": eq_initial})
    return out


def run(ctx):
    ctx.assumptions += [
        "both handlers run on real HsmsProtocol objects joined by an in-memory link whose connector establishes the TCP connection as soon as "
        "both sides are enabled and down (connect latency zero); segment cuts are environment deviations of the link",
        "scheduling points are the runtime's operations (locks, events, queues, thread start/join, sends); in the handshake phase also every "
        "line of GemHandler.waitfor_communicating / _on_state_communicating (the waiter registration against the transition)",
        f"'within a bounded time' = T5 + T6 + 2 (T3 + delay) = {BOUND} s of virtual time",
        "the equipment's own tables are the reference for every host service call",
        "tcp parts: both handlers use the real TcpClientConnection / TcpServerConnection over the kernel model mc/vnet.py (no segment cuts there)",
        "mid-flight phase: the link is paced (1 ms between the segments of one write); a side is disabled half a gap after the peer started "
        "a message to it, so with a segment cut the disabled side holds an incomplete message; it is re-enabled after T3",
    ]
    from checks import hsms_harness as hh  # noqa: PLC0415

    missing = hh.trace_region(REGION)
    if missing:
        ctx.note(f"not line-traced (not found): {missing}")
    k = 1
    tot = states = 0
    parts = []
    for cfg in configs(ctx.thorough):
        # the full script at K = 0 plus cuts; the handshake (and thorough: the full script) at K = 1
        st = explore.explore(ctx, run_one, {"sched": 0, "cut": 1}, f"c20-full-{cfg}", opts=dict(cfg, phase="full", cuts=True), chunk=4)
        parts.append({"cfg": cfg, "phase": "full", "budgets": {"sched": 0, "cut": 1}, "executions": st["executions"], "outcomes": st["distinct_outcomes"]})
        tot += st["executions"]
        states += st["distinct_outcomes"]
        st = explore.explore(ctx, run_one, {"sched": k, "cut": 0}, f"c20-handshake-{cfg}", opts=dict(cfg, phase="handshake"), chunk=8)
        parts.append({"cfg": cfg, "phase": "handshake", "budgets": {"sched": k}, "executions": st["executions"], "outcomes": st["distinct_outcomes"],
                      "levels_completed": st["levels_completed"]})
        tot += st["executions"]
        states += st["distinct_outcomes"]
        if ctx.out_of_time():
            break
    # the same script with both handlers on their real TCP connection classes over the kernel model: full script under the default schedule
    # for every configuration, the start-up handshake under every schedule with <= 1 delay
    for cfg in configs(ctx.thorough):
        st = explore.explore(ctx, run_one, {"sched": 0, "cut": 0}, f"c20-tcp-full-{cfg}", opts=dict(cfg, phase="full", transport="tcp"), chunk=4)
        parts.append({"cfg": cfg, "phase": "full", "transport": "tcp", "executions": st["executions"], "outcomes": st["distinct_outcomes"]})
        tot += st["executions"]
        states += st["distinct_outcomes"]
    for cfg in configs(False)[:2] + configs(False)[4:6]:
        st = explore.explore(ctx, run_one, {"sched": 1, "cut": 0}, f"c20-tcp-handshake-{cfg}", opts=dict(cfg, phase="handshake", transport="tcp"), chunk=8)
        parts.append({"cfg": cfg, "phase": "handshake", "transport": "tcp", "budgets": {"sched": 1}, "executions": st["executions"],
                      "outcomes": st["distinct_outcomes"], "levels_completed": st["levels_completed"]})
        tot += st["executions"]
        states += st["distinct_outcomes"]
    # disable in mid-flight: paced link, every <= 1 segment cut (the cut decides which message is half delivered at the disable)
    for cfg in configs(False)[:2] + configs(False)[4:5]:
        st = explore.explore(ctx, run_one, {"sched": 0, "cut": 1}, f"c20-midflight-{cfg}", opts=dict(cfg, phase="midflight", cuts=True, paced=True), chunk=4)
        parts.append({"cfg": cfg, "phase": "midflight", "budgets": {"sched": 0, "cut": 1}, "executions": st["executions"], "outcomes": st["distinct_outcomes"]})
        tot += st["executions"]
        states += st["distinct_outcomes"]
    # the equipment triggers the event as soon as it is enabled, while the host is still inside subscribe_collection_event: <= K delays
    for cfg in configs(False)[:1] + configs(False)[4:5]:
        bud = {"sched": 3 if ctx.thorough else 2, "cut": 0}
        st = explore.explore(ctx, run_one, bud, f"c20-subscribe-race-{cfg}", opts=dict(cfg, phase="subrace"), chunk=8)
        parts.append({"cfg": cfg, "phase": "subscribe-race", "budgets": bud, "executions": st["executions"], "outcomes": st["distinct_outcomes"],
                      "levels_completed": st["levels_completed"]})
        tot += st["executions"]
        states += st["distinct_outcomes"]
    # one configuration: services phase under K = 1
    cfg = configs(False)[0]
    st = explore.explore(ctx, run_one, {"sched": 1, "cut": 0}, "c20-services-K1", opts=dict(cfg, phase="services"), chunk=8)
    parts.append({"cfg": cfg, "phase": "services", "budgets": {"sched": 1}, "executions": st["executions"], "outcomes": st["distinct_outcomes"],
                  "levels_completed": st["levels_completed"]})
    tot += st["executions"]
    states += st["distinct_outcomes"]
    if ctx.thorough and not ctx.out_of_time():
        st = explore.explore(ctx, run_one, {"sched": 1, "cut": 0}, "c20-full-K1", opts=dict(cfg, phase="full"), chunk=8)
        parts.append({"cfg": cfg, "phase": "full", "budgets": {"sched": 1}, "executions": st["executions"], "outcomes": st["distinct_outcomes"],
                      "levels_completed": st["levels_completed"]})
        tot += st["executions"]
        states += st["distinct_outcomes"]
    ctx.setcov("states", states)
    ctx.setcov("transitions", tot)
    ctx.setcov("traces_validated_against_impl", tot)
    ctx.setcov("parts", parts)
    ctx.sample({"script": "enable both, wait communicating, 13 host service calls, subscribe + trigger event, clear + subscribe again + trigger, go offline/online, remote command, "
                          "restart host, restart equipment", "first": parts[0]})


def replay(ctx, detail):
    case = dict(detail["case"])
    devs = {int(k): v for k, v in case.pop("devs", {}).items()}
    budgets = case.pop("budgets", {})
    for extra in ("driver", "opts"):
        case.pop(extra, None)
    r = run_one(devs, budgets, **case)
    print("replayed:", r.get("obs"))
    ctx.evaluations += 1
    for sig, d in r["v"]:
        ctx.violation(sig, d)
