"""C18 - the state-machine engine keeps one consistent current state under any transitions.

(a) Shape H over *programs*: every small hierarchical machine definition (forests of depth <= 2, transitions
    among leaves, optionally one enter handler that requests a transition) plus the three shipped machines;
    for each, BFS over transition-name sequences to closure against the reference semantics below.
(b) Shape S: two threads request transitions concurrently on the shipped machines from every reachable state,
    all schedules with <= K delays at line granularity; the outcome must equal one of the two sequential orders.
"""
from __future__ import annotations

import itertools

from mc import explore, loader, vrt

loader.install_shims()
import secsgem.common  # noqa: E402
from secsgem.common.state_machine import State, StateMachine, Transition  # noqa: E402

LEVEL = "model_checking"
BUDGET = {"quick": 420, "thorough": 3000}


# ------------------------------------------------------------------------------------------ reference
class RefMachine:
    def __init__(self, parents, transitions, initial):
        self.parents = parents  # index -> parent index or None
        self.transitions = transitions  # name -> (sources, dest)
        self.current = initial

    def ancestors(self, s):
        out = []
        while s is not None:
            out.append(s)
            s = self.parents[s]
        return out

    def active(self):
        return set(self.ancestors(self.current))

    def allowed(self, name):
        if name not in self.transitions:
            return "unknown"
        return "ok" if self.current in self.transitions[name][0] else "forbidden"


class HandlerFailed(Exception):
    pass


# ------------------------------------------------------------------------------------------ generated machines
def build_machine(defn, log):
    """defn: {"parents": [...], "transitions": [[name, [sources], dest]], "initial": i, "handler": [state, transition] | None}"""
    import enum  # noqa: PLC0415

    n = len(defn["parents"])
    en = enum.Enum("S", {f"S{i}": i for i in range(n)})
    sm = StateMachine()
    states = []
    for i, p in enumerate(defn["parents"]):
        st = State(en(i), f"S{i}", parent=(states[p] if p is not None else None), initial=(i == defn["initial"]))
        states.append(st)
    sm.states = states
    sm.nested_budget = 1
    sm._current_state = states[defn["initial"]]
    sm._transitions = [Transition(name, [states[s] for s in srcs], states[d]) for name, srcs, d in defn["transitions"]]
    for i, st in enumerate(states):
        st.events.enter.register(lambda _d, i=i: log.append(("enter", i)))
        st.events.leave.register(lambda _d, i=i: log.append(("leave", i)))
    for tr in sm._transitions:
        tr.events.called.register(lambda _d, name=tr.name: log.append(("called", name)))
    if defn.get("handler"):
        hs, ht = defn["handler"]

        def nested(_d):
            # at most one nested request per top-level request (a handler that re-enters its own state would never end)
            if sm.nested_budget <= 0:
                return
            sm.nested_budget -= 1
            log.append(("nested-request", ht))
            try:
                sm._perform_transition(ht)
                log.append(("nested-done", ht))
            except Exception as exc:  # noqa: BLE001
                log.append(("nested-raised", type(exc).__name__))
            if defn.get("handler_raises"):
                # an application handler that fails after having requested a transition: the failure reaches the requester
                raise HandlerFailed

        states[hs].events.enter.register(nested)
    return sm, states


def step_oracle(ref, defn, name, sm, states, log, before_active_lib, raised):
    """Check one top-level request against the reference; returns list of (kind, detail)."""
    out = []
    verdict = ref.allowed(name)
    cur_before = ref.current
    act_before = ref.active()
    if verdict != "ok":
        want_exc = "UnknownTransitionError" if verdict == "unknown" else "WrongSourceStateError"
        if raised is None:
            out.append((f"forbidden-request-did-not-raise|{verdict}", {}))
        elif raised != want_exc:
            out.append((f"wrong-exception|{verdict}|got={raised}", {}))
        if states.index(sm.current_state) != cur_before:
            out.append((f"refused-request-changed-current|{verdict}", {}))
        if log:
            out.append((f"refused-request-fired-events|{verdict}", {"log": log}))
        if {i for i, s in enumerate(states) if s.active} != before_active_lib:
            out.append((f"refused-request-changed-active-flags|{verdict}", {}))
        return out  # (flags are compared with their own value before the request, so this also holds after a handler failure)
    if raised == "HandlerFailed" and defn.get("handler_raises"):
        # the application's own failure: what the machine looks like right now is not constrained (the statement does not cover
        # failing handlers); later requests are still held to: refused => raises/unchanged, allowed => exactly its destination, called once
        ref.current = states.index(sm.current_state)
        ref.tainted = True
        return out
    if raised is not None:
        out.append((f"allowed-request-raised|{raised}", {"log": log}))
        return out
    # perform in the reference, following nested requests made by the handler exactly as logged
    performed = []  # (name, before_active, after_active)

    def perform(nm):
        b = ref.active()
        ref.current = ref.transitions[nm][1]
        performed.append((nm, b, ref.active()))

    handler = defn.get("handler")
    perform(name)
    nested_results = [e for e in log if e[0] in ("nested-done", "nested-raised")]
    # replay handler logic in the reference: every time the handler state is entered it requests its transition
    # (entered = in after-active but not in before-active, or re-entered by a self/external transition)
    ref_nested = []
    if handler:
        nm, b, a = performed[-1]
        # the handler runs when its state fires 'enter'.  A state that becomes active must fire it; a state that stays active may be
        # left and re-entered (external-transition semantics, accepted above), so for those the implementation's own event decides.
        entered = (a - b) | ({handler[0]} if (handler[0] in a and ("enter", handler[0]) in log) else set())
        if handler[0] in entered:
            v = ref.allowed(handler[1])
            if v == "ok":
                perform(handler[1])
                ref_nested.append("nested-done")
            else:
                ref_nested.append("nested-raised")
    got_nested = [e[0] for e in nested_results]
    nesting = "nested" if handler and (got_nested or ref_nested) else "plain"
    if got_nested != ref_nested:
        out.append((f"nested-request-outcome|{nesting}|got={got_nested}|want={ref_nested}", {"log": log}))
        # resynchronise
        ref.current = states.index(sm.current_state)
        return out
    if states.index(sm.current_state) != ref.current:
        out.append((f"wrong-destination|{nesting}", {"got": states.index(sm.current_state), "want": ref.current, "log": log}))
        ref.current = states.index(sm.current_state)
        return out
    lib_active = {i for i, s in enumerate(states) if s.active}
    if getattr(ref, "tainted", False):
        called = [e[1] for e in log if e[0] == "called"]
        if sorted(called) != sorted(p[0] for p in performed):
            out.append((f"called-events|{nesting}|after-handler-failure|got={len(called)}|want={len(performed)}", {"log": log}))
        return out
    if lib_active != ref.active():
        extra = sorted(lib_active - ref.active())
        missing = sorted(ref.active() - lib_active)
        out.append((f"active-set-differs|{nesting}|extra={len(extra)}|missing={len(missing)}", {"got": sorted(lib_active), "want": sorted(ref.active()), "log": log}))
    # events: called exactly once per performed transition; enter/leave consistent with the activity changes
    called = [e[1] for e in log if e[0] == "called"]
    if sorted(called) != sorted(p[0] for p in performed):
        out.append((f"called-events|{nesting}|got={len(called)}|want={len(performed)}", {"log": log}))
    net = {}
    for kind, who in [e for e in log if e[0] in ("enter", "leave")]:
        net.setdefault(who, []).append(kind)
    for i in range(len(states)):
        evs = net.get(i, [])
        was, now = i in act_before, i in ref.active()
        n_enter, n_leave = evs.count("enter"), evs.count("leave")
        # states whose activity changes must fire the corresponding event; nothing may fire more often than the number of performed transitions
        if n_enter - n_leave != int(now) - int(was):
            out.append((f"enter-leave-balance|{nesting}|was={was}|now={now}|enter={n_enter}|leave={n_leave}", {"state": i, "log": log}))
        elif max(n_enter, n_leave) > len(performed):
            out.append((f"event-fired-more-than-once-per-transition|{nesting}", {"state": i, "log": log}))
    return out


def run_program(defn, depth):
    """BFS over transition-name sequences; states deduplicated on (current, active flags)."""
    names = [t[0] for t in defn["transitions"]] + ["nosuch"]
    seen = set()
    frontier = [[]]
    viol = []
    n_steps = 0
    for _d in range(depth):
        nxt = []
        for seq in frontier:
            for nm in names:
                log = []
                sm, states = build_machine(defn, log)
                ref = RefMachine(defn["parents"], {t[0]: (set(t[1]), t[2]) for t in defn["transitions"]}, defn["initial"])
                ok = True
                for prev in seq:
                    sm.nested_budget = 1
                    try:
                        sm._perform_transition(prev)
                    except HandlerFailed:
                        ref.tainted = True
                    except Exception:  # noqa: BLE001
                        pass
                    ref_replay(ref, defn, prev, sm, states)
                del log[:]
                before_active = {i for i, s in enumerate(states) if s.active}
                raised = None
                sm.nested_budget = 1
                try:
                    sm._perform_transition(nm)
                except Exception as exc:  # noqa: BLE001
                    raised = type(exc).__name__
                n_steps += 1
                res = step_oracle(ref, defn, nm, sm, states, list(log), before_active, raised)
                for kind, detail in res:
                    viol.append((kind, dict(detail, sequence=seq + [nm])))
                key = (states.index(sm.current_state), tuple(s.active for s in states))
                if key not in seen and ok:
                    seen.add(key)
                    nxt.append(seq + [nm])
        frontier = nxt
        if not frontier:
            break
    return viol, len(seen), n_steps


def ref_replay(ref, defn, name, sm, states):
    """Keep the reference in step with the implementation along an already-checked prefix."""
    ref.current = states.index(sm.current_state)


def describe(defn):
    depth = 0
    for p in defn["parents"]:
        d, q = 0, p
        while q is not None:
            d += 1
            q = defn["parents"][q]
        depth = max(depth, d)
    h = 'none' if not defn.get('handler') else ('leaf' if defn['handler'][0] not in defn['parents'] else 'parent')
    return f"states={len(defn['parents'])}|depth={depth}|handler={h}{'+raises' if defn.get('handler_raises') else ''}"


DEEP_SHAPES = [
    # grandparent with two branches, a leaf under each (3 levels), plus a root-level leaf to start from
    [None, None, 1, 1, 2, 3],
    # chain of depth 2 next to a flat leaf and a sibling subtree
    [None, None, 1, 2, 1],
    [None, None, 1, 2, 2, None],
]


def deep_definitions():
    for parents in DEEP_SHAPES:
        n = len(parents)
        leaves = [i for i in range(n) if i not in parents]
        initial = [i for i in leaves if parents[i] is None][0]
        # a cycle through all leaves plus every direct leaf-to-leaf transition
        trans = []
        for a in leaves:
            for b in leaves:
                if a != b:
                    trans.append([f"t{a}_{b}", [a], b])
        yield {"parents": parents, "transitions": trans, "initial": initial, "handler": None}
        for hs in range(n):
            for t in trans[:: max(1, len(trans) // 6)]:
                yield {"parents": parents, "transitions": trans, "initial": initial, "handler": [hs, t[0]]}


def check_program(case):
    defn = case["defn"]
    viol, nstates, nsteps = run_program(defn, case.get("depth", 3))
    out = []
    for kind, detail in viol:
        out.append((f"C18|{kind}|{describe(defn)}", {"case": case, **detail}))
    return {"v": out, "nt": bool(defn.get("handler")) or any(p is not None for p in defn["parents"]), "cnt": {"machine_states": nstates, "steps": nsteps}}


def gen_definitions(max_states, thorough):
    for n in range(2, max_states + 1):
        # forests of depth <= 2: parent of state i is an earlier state (or None)
        for parents in itertools.product(*[[None] + list(range(i)) for i in range(n)]):
            def depth_of(i):
                d = 0
                while parents[i] is not None:
                    i = parents[i]
                    d += 1
                return d

            if any(depth_of(i) > 2 for i in range(n)):
                continue
            leaves = [i for i in range(n) if i not in parents]
            roots = [i for i in leaves if parents[i] is None]
            if not roots or len(leaves) < 2:
                continue
            initial = roots[0]
            src_sets = [list(c) for k in (1, 2) for c in itertools.combinations(leaves, k)]
            trans_opts = [(s, d) for s in src_sets for d in leaves]
            max_t = 2 if (n >= 4 and not thorough) else 3
            if len(trans_opts) > 12 and not thorough:
                trans_opts = trans_opts[::2]
            for k in (1, 2) + ((3,) if max_t >= 3 and n <= 3 else ()):
                for combo in itertools.combinations(trans_opts, k):
                    transitions = [[f"t{j}", s, d] for j, (s, d) in enumerate(combo)]
                    yield {"parents": list(parents), "transitions": transitions, "initial": initial, "handler": None}
                    if k >= 2 or thorough:
                        for hs in range(n):
                            for ht in [t[0] for t in transitions]:
                                yield {"parents": list(parents), "transitions": transitions, "initial": initial, "handler": [hs, ht]}


# ------------------------------------------------------------------------------------------ shipped machines
def shipped(name):
    if name == "connection":
        from secsgem.hsms.connection_state_machine import ConnectionStateMachine  # noqa: PLC0415

        return ConnectionStateMachine()
    if name == "communication":
        import secsgem.hsms  # noqa: PLC0415
        from secsgem.gem.communication_state_machine import CommunicationStateMachine  # noqa: PLC0415

        return CommunicationStateMachine(secsgem.hsms.HsmsSettings())
    from secsgem.gem.control_state_machine import ControlStateMachine  # noqa: PLC0415

    init, sub = name.split(":")[1:]
    return ControlStateMachine(init, sub)


def all_states(sm):
    seen = []
    for v in vars(sm).values():
        if isinstance(v, State) and v not in seen:
            seen.append(v)
    return seen


def observe(sm):
    sts = all_states(sm)
    return {"current": sm.current_state.name, "active": sorted(s.name for s in sts if s.active)}


def _plain(sm):
    """Plain-valued attributes of the machine object (remembered sub-states and the like): a refused request must not change them."""
    from mc import hbfs  # noqa: PLC0415

    return [(n, v) for n, v in hbfs.plain_attrs(sm) if not n.startswith("_transition")]


def ancestors(st):
    out = []
    while st is not None:
        out.append(st.name)
        st = st.parent
    return out


def check_shipped(case):
    """Sequential: every transition-name sequence up to depth on a shipped machine; active set = current + ancestors, refused => unchanged."""
    out = []
    name = case["machine"]

    def driver(s):
        sm0 = shipped(name)
        if name.startswith("control"):
            try:
                sm0.start()
            except Exception:  # noqa: BLE001
                pass
        tnames = [t.name for t in sm0._transitions]
        seen = set()
        frontier = [[]]
        nsteps = 0
        for _d in range(case.get("depth", 3)):
            nxt = []
            for seq in frontier:
                for nm in tnames:
                    sm = shipped(name)
                    if name.startswith("control"):
                        sm.start()
                    for prev in seq:
                        try:
                            sm._perform_transition(prev)
                        except Exception:  # noqa: BLE001
                            pass
                    before = dict(observe(sm), attrs=_plain(sm))
                    cur = sm.current_state
                    tr = sm.transition(nm)
                    allowed = cur in tr.sources
                    raised = None
                    try:
                        # through the machine's own public method of that name where it has one (it may do more than the transition)
                        wrapper = getattr(type(sm), nm, None)
                        if callable(wrapper):
                            wrapper(sm)
                        else:
                            sm._perform_transition(nm)
                    except Exception as exc:  # noqa: BLE001
                        raised = type(exc).__name__
                    nsteps += 1
                    after = dict(observe(sm), attrs=_plain(sm))
                    sig = None
                    if not allowed:
                        if raised != "WrongSourceStateError":
                            sig = f"forbidden-request|raised={raised}"
                        elif after != before:
                            sig = "refused-request-changed-state"
                    elif raised is not None:
                        sig = f"allowed-request-raised|{raised}"
                    if sig is None:
                        want_active = sorted(ancestors(sm.current_state))
                        if after["active"] != want_active:
                            sig = f"active-set-differs|extra={len(set(after['active']) - set(want_active))}|missing={len(set(want_active) - set(after['active']))}"
                    if sig:
                        out.append((f"C18|shipped|{name.split(':')[0]}|{sig}", {"case": case, "sequence": seq + [nm], "after": after}))
                    key = (after["current"], tuple(after["active"]))
                    if key not in seen:
                        seen.add(key)
                        nxt.append(seq + [nm])
            frontier = nxt
        s.nsteps = nsteps
        s.nstates = len(seen)

    sched = vrt.run(driver, max_steps=5_000_000, max_time=1e9, line_points=False)
    if sched.driver_exception:
        return {"v": [("HARNESS|c18-shipped", {"case": case, "trace": sched.driver_exception[-1200:]})]}
    return {"v": out, "nt": True, "cnt": {"machine_states": getattr(sched, "nstates", 0), "steps": getattr(sched, "nsteps", 0)}}


# ------------------------------------------------------------------------------------------ (b) two concurrent triggers
REGION = ["secsgem.common.state_machine:StateMachine._perform_transition", "secsgem.common.state_machine:State.enter",
          "secsgem.common.state_machine:State.leave", "secsgem.common.state_machine:StateMachine.transition"]


def prefix_to_state(name, prefix):
    sm = shipped(name)
    if name.startswith("control"):
        sm.start()
    for p in prefix:
        sm._perform_transition(p)
    return sm


def sequential_outcomes(name, prefix, a, b):
    outs = []
    for order in ((a, b), (b, a)):
        sm = prefix_to_state(name, prefix)
        res = []
        for nm in order:
            try:
                sm._perform_transition(nm)
                res.append((nm, "ok"))
            except Exception as exc:  # noqa: BLE001
                res.append((nm, type(exc).__name__))
        # one entry per requester (the two requests may name the same transition), order-free
        outs.append({"results": sorted(res), **observe(sm)})
    return outs


def run_pair(devs, budgets, machine=None, prefix=None, a=None, b=None):
    box = {}

    def driver(s):
        sm = prefix_to_state(machine, prefix)
        res = []

        def req(nm):
            try:
                sm._perform_transition(nm)
                res.append((nm, "ok"))
            except Exception as exc:  # noqa: BLE001
                res.append((nm, type(exc).__name__))

        t1 = vrt.Thread(target=req, args=(a,), name="req-a")
        t2 = vrt.Thread(target=req, args=(b,), name="req-b")
        t1.start()
        t2.start()
        t1.join()
        t2.join()
        box["obs"] = {"results": sorted(res), **observe(sm)}
        box["allowed"] = sequential_outcomes(machine, prefix, a, b)

    sched = vrt.run(driver, devs, budgets, max_steps=200000, max_time=1e6)
    out = {"trace": sched.trace, "v": [], "obs": box.get("obs")}
    if sched.harness_failure or sched.driver_exception:
        out["harness"] = (sched.harness_failure or sched.driver_exception)[-1000:]
        return out
    case = {"machine": machine, "prefix": prefix, "a": a, "b": b, "part": "pair"}
    if sched.outcome != "done":
        out["v"].append((f"C18|concurrent|{machine.split(':')[0]}|execution-{sched.outcome}", {"case": case, "info": sched.deadlock_info}))
    elif box["obs"] not in box["allowed"]:
        out["v"].append((f"C18|concurrent|{machine.split(':')[0]}|outcome-not-serialisable", {"case": case, "got": box["obs"], "allowed": box["allowed"]}))
    return out


def concurrent_pairs(thorough):
    """(machine, prefix reaching a state, two transitions that are both allowed there or conflict)."""
    out = []
    for machine in ("communication", "connection", "control:ONLINE:REMOTE", "control:HOST_OFFLINE:LOCAL"):
        sm0 = shipped(machine)
        if machine.startswith("control"):
            sm0.start()
        tnames = [t.name for t in sm0._transitions]
        # reachable states by BFS over allowed transitions
        seen = {sm0.current_state.name: []}
        frontier = [[]]
        while frontier:
            nxt = []
            for pre in frontier:
                for nm in tnames:
                    sm = prefix_to_state(machine, pre)
                    try:
                        sm._perform_transition(nm)
                    except Exception:  # noqa: BLE001
                        continue
                    if sm.current_state.name not in seen:
                        seen[sm.current_state.name] = pre + [nm]
                        nxt.append(pre + [nm])
            frontier = nxt
        for _state, pre in seen.items():
            sm = prefix_to_state(machine, pre)
            allowed = [t.name for t in sm._transitions if sm.current_state in t.sources]
            for a, b in itertools.combinations(allowed, 2):
                out.append((machine, pre, a, b))
            if thorough and allowed:
                for a in allowed:
                    out.append((machine, pre, a, a))
    return out


def check_case(case):
    if case["kind"] == "program":
        return check_program(case)
    return check_shipped(case)


def run(ctx):
    ctx.assumptions += [
        "reference semantics: refused => raises and nothing changes; allowed => destination (following nested requests of the handler), "
        "active set = current + ancestors, 'called' once per performed transition, enter/leave balanced with the change of activity of "
        "every state (a state that stays active may be left and re-entered: internal vs external transition semantics are both accepted)",
        "generated machines: transitions among leaf states, initial state a root-level leaf, at most one enter handler requesting a transition",
        "a source line of state_machine.py is the atom of interleaving for the concurrent part",
    ]
    # (b) first: line tracing must be configured before workers are forked
    missing = explore and vrt.trace_functions(vrt.resolve(REGION)[0])
    del missing
    states = trans = traces = 0
    pair_stats = []
    pairs = concurrent_pairs(ctx.thorough)
    k = 3 if ctx.thorough else 2
    for machine, pre, a, b in pairs:
        st = explore.explore(ctx, run_pair, {"sched": k}, f"c18-pair-{machine}-{'/'.join(pre)}-{a}-{b}",
                             opts={"machine": machine, "prefix": pre, "a": a, "b": b}, chunk=16)
        pair_stats.append({"machine": machine, "prefix": pre, "a": a, "b": b, "executions": st["executions"], "outcomes": st["distinct_outcomes"],
                           "levels_completed": st["levels_completed"]})
        traces += st["executions"]
        states += st["distinct_outcomes"]
        if st["levels_completed"] < k:
            ctx.exhaustive = False
        if ctx.out_of_time():
            break
    ctx.setcov("concurrent_pairs", len(pair_stats))
    ctx.setcov("concurrent_pair_samples", pair_stats[:6])
    ctx.setcov("concurrent_delay_bound", k)

    # (a) programs
    def cases():
        for m in ("connection", "communication"):
            yield {"kind": "shipped", "machine": m, "depth": 4}
        for init in ("EQUIPMENT_OFFLINE", "ATTEMPT_ONLINE", "HOST_OFFLINE", "ONLINE"):
            for sub in ("LOCAL", "REMOTE"):
                yield {"kind": "shipped", "machine": f"control:{init}:{sub}", "depth": 4}
        k = 0
        for defn in gen_definitions(4 if ctx.thorough else 3, ctx.thorough):
            yield {"kind": "program", "defn": defn, "depth": 3}
            k += 1
            if defn.get("handler") and (ctx.thorough or k % 3 == 0):
                yield {"kind": "program", "defn": dict(defn, handler_raises=True), "depth": 3}
        for defn in deep_definitions():
            yield {"kind": "program", "defn": defn, "depth": 2 if not ctx.thorough else 3}
            if defn.get("handler"):
                yield {"kind": "program", "defn": dict(defn, handler_raises=True), "depth": 2}

    n = ctx.run_cases(check_case, cases(), "c18-programs", chunk=64)
    states += ctx.cov.get("machine_states", 0)
    trans += ctx.cov.get("steps", 0)
    ctx.setcov("programs", n)
    ctx.setcov("states", states)
    ctx.setcov("transitions", trans + traces)
    ctx.setcov("traces_validated_against_impl", traces + n)


def replay(ctx, detail):
    case = detail["case"]
    if case.get("part") == "pair":
        vrt.trace_functions(vrt.resolve(REGION)[0])
        devs = {int(k): v for k, v in case.get("devs", {}).items()}
        r = run_pair(devs, case["budgets"], machine=case["machine"], prefix=case["prefix"], a=case["a"], b=case["b"])
        print("replayed:", r.get("obs"))
    else:
        r = check_case(case)
    ctx.evaluations += 1
    for sig, d in r.get("v", ()):
        ctx.violation(sig, d)
