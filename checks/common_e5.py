"""Shared helpers for the E5 codec checks (C01, C02, C14): library object builders and comparisons."""
from __future__ import annotations

from mc import loader
from ref import e5

loader.load()
from secsgem.secs import variables as V  # noqa: E402

VCLASS = {
    "B": V.Binary, "BOOLEAN": V.Boolean, "A": V.String, "J": V.JIS8,
    "I1": V.I1, "I2": V.I2, "I4": V.I4, "I8": V.I8,
    "U1": V.U1, "U2": V.U2, "U4": V.U4, "U8": V.U8, "F4": V.F4, "F8": V.F8,
}


def anyvalue():
    from secsgem.secs.variables.dynamic import ANYVALUE  # noqa: PLC0415

    return ANYVALUE


def input_forms(node, all_forms=True):
    """(form name, python input) pairs that unambiguously denote the node's value for the variables API."""
    code, val = node
    n = len(val)
    out = []
    if code in e5.INT_W:
        out.append(("list", list(val)))
        if all_forms:
            out.append(("tuple", tuple(val)))
            if n == 1:
                out.append(("scalar", val[0]))
            if n and all(0 <= v <= 255 for v in val):
                out.append(("bytearray", bytearray(val)))
    elif code in ("F4", "F8"):
        out.append(("list", list(val)))
        if all_forms:
            out.append(("tuple", tuple(val)))
            if n == 1:
                out.append(("scalar", val[0]))
    elif code == "BOOLEAN":
        out.append(("list", list(val)))
        if all_forms:
            out.append(("tuple", tuple(val)))
            out.append(("intlist", [int(b) for b in val]))
            if n == 1:
                out.append(("scalar", val[0]))
            if n:
                out.append(("bytearray", bytearray(int(b) for b in val)))
    elif code in ("A", "J"):
        text = e5.latin1_to_str(val) if code == "A" else e5.jis8_to_str(val)
        out.append(("str", text))
        if all_forms:
            out.append(("bytes", bytes(val)))
            out.append(("bytearray", bytearray(val)))
            out.append(("intlist", list(val)))
    elif code == "B":
        out.append(("bytes", bytes(val)))
        if all_forms:
            out.append(("bytearray", bytearray(val)))
            out.append(("intlist", list(val)))
            if n == 1:
                out.append(("scalar", val[0]))
    return out


def build_var(node):
    """Typed variables-API object for a node (lists become Array(ANYVALUE))."""
    code, val = node
    if code == "L":
        return V.Array(anyvalue(), [build_var(ch) for ch in val])
    if code in ("A", "J"):
        return VCLASS[code](bytes(val))
    if code == "B":
        return VCLASS[code](bytes(val))
    return VCLASS[code](list(val))


def tree_equal(node, got) -> bool:
    """Does python value `got` (from get()) equal the value the node denotes?"""
    code, val = node
    if code == "L":
        if not isinstance(got, list) or len(got) != len(val):
            return False
        return all(tree_equal(ch, g) for ch, g in zip(val, got))
    return e5.same_value(code, e5.py_value(node), got)


def short(node, limit=6):
    code, val = node
    if code == "L":
        return ["L"] + [short(ch, limit) for ch in val[:limit]] + (["..."] if len(val) > limit else [])
    v = list(val)
    return [code, len(v)] + v[:limit]
