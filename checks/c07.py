"""C07 - the GEM communication state follows the E30 establish-communications model.

Shape H: history BFS over {enable, disable, link selected, link lost, inbound S1F13, S1F14 with COMMACK
0/1 and latest/stale/alien system bytes, other primaries, timer expiry} on real GemHostHandler and
GemEquipmentHandler objects; the four clauses of the statement are checked as trace invariants.
"""
from __future__ import annotations

from checks import gem_harness as gh
from mc import hbfs, vrt
from ref import e5, e37

LEVEL = "model_checking"
BUDGET = {"quick": 420, "thorough": 3000}

ALPHABET = ["enable", "link_up", "s1f14_ok_latest", "s1f13", "tick", "s1f14_nak_latest", "s1f14_ok_alien", "link_lost", "s1f1",
            "user_msg", "s1f14_ok_stale", "disable", "s1f14_empty_commack_latest", "s1f14_empty_list_latest"]

# timer configurations: the default (T3 > delay) and one where two reply time-outs fit into one delay (T3 << delay), so that
# a timer armed by an earlier attempt can still be pending when a later attempt has failed
TIMERS = {"default": (gh.T3, gh.DELAY), "short_t3": (2.0, 10), "wrap": (gh.T3, gh.DELAY)}
# "wrap": the protocol's transaction counter starts at 2^32 - 1, so the first S1F13 of the handler carries system bytes 0 (a falsy value)


def make_handler_class(role, calls, endpoint_box):
    import secsgem.gem  # noqa: PLC0415

    base = secsgem.gem.GemHostHandler if role == "host" else secsgem.gem.GemEquipmentHandler

    class Probe(base):
        def _on_s01f01(self, handler, message):
            calls.append(("s01f01", self.communication_state.current.name))
            return super()._on_s01f01(handler, message)

        def _on_s01f13(self, handler, message):
            calls.append(("s01f13", self.communication_state.current.name))
            return super()._on_s01f13(handler, message)

    return Probe


class Harness:
    def __init__(self, s, role, timers="default"):
        self.s = s
        self.role = role
        self.calls = []
        self.t3, self.delay = TIMERS[timers]
        self.naks = {}  # system bytes of an S1F13 -> time its refusal (S1F14 COMMACK 1) was delivered
        self.ep = gh.GemEndpoint(role, handler_cls=make_handler_class(role, self.calls, None), t3=self.t3,
                                 establish_communication_timeout=self.delay)
        self.h = self.ep.handler
        if timers == "wrap":
            self.h.protocol._system_counter = 2 ** 32 - 1
        self.h.register_stream_function(5, 1, self._user_cb)
        self.viol = []
        self.enabled = False
        self.sent13 = []  # (system, t) of S1F13 the handler sent on the current link
        self.ok = False  # a completed S1F13/S1F14 exchange with COMMACK 0 exists on the current link
        self.last_event = None
        self.pre = None

    def _user_cb(self, handler, message):
        self.calls.append(("user_s05f01", self.h.communication_state.current.name))
        return self.h.stream_function(5, 2)(0)

    def v(self, kind, **detail):
        self.viol.append((f"C07|{self.role}|{kind}|event={self.last_event}|pre={self.pre}", detail))

    def apply(self, ev):
        s, ep, h = self.s, self.ep, self.h
        self.last_event = ev
        self.pre = ep.comm()
        link = ep.conn.link_up if self.enabled else False
        from_host = self.role != "host"  # the peer of an equipment is a host and vice versa
        must_establish = False
        n_calls = len(self.calls)
        if ev == "enable":
            if self.enabled:
                return False
            self.enabled = True
            h.enable()
        elif ev == "disable":
            if not self.enabled:
                return False
            self.enabled = False
            h.disable()
            self.link_reset()
        elif ev == "link_up":
            if not ep.link_up(s):
                return False
            self.sent13 = []
            self.ok = False
        elif ev == "link_lost":
            if not link:
                return False
            ep.conn.peer_close()
            self.link_reset()
        elif ev == "tick":
            if not s.pending_deadlines():
                return False
            s.advance()
        elif not link or ep.state() != "CONNECTED_SELECTED":
            return False
        elif ev == "s1f13":
            sysb = ep.send_primary(1, 13, True, gh.body_s1f13(from_host))
            s.settle()
            frames = ep.pump()
            self.note(frames)
            rep = [f for f in frames if f["stype"] == 0 and (f["stream"], f["function"]) == (1, 14) and f["system"] == sysb]
            if rep:
                try:
                    node = gh.decode_body(rep[0]["body"])
                    if node[1][0] == ("B", b"\x00"):
                        self.ok = True
                except Exception:  # noqa: BLE001
                    pass
            self.post(ev, frames, n_calls, False)
            return True
        elif ev in ("s1f14_ok_latest", "s1f14_nak_latest"):
            open13 = [x for x in self.sent13 if x[1] + self.t3 > s.clock]
            if not open13 or open13[-1] is not self.sent13[-1]:
                return False
            ack = 0 if ev == "s1f14_ok_latest" else 1
            ep.send_primary(1, 14, False, gh.body_s1f14(ack, from_host), system=self.sent13[-1][0])
            if ack == 0:
                self.ok = True
                must_establish = True
            else:
                self.naks.setdefault(self.sent13[-1][0], s.clock)
        elif ev in ("s1f14_empty_commack_latest", "s1f14_empty_list_latest"):
            # an answer that carries no COMMACK value at all (zero-length binary / empty list): not COMMACK = 0, must not establish
            open13 = [x for x in self.sent13 if x[1] + self.t3 > s.clock]
            if not open13 or open13[-1] is not self.sent13[-1]:
                return False
            inner = ("L", []) if from_host else ("L", [("A", b"peer"), ("A", b"1.0")])
            body = e5.enc(("L", [("B", b""), inner])) if ev == "s1f14_empty_commack_latest" else e5.enc(("L", []))
            ep.send_primary(1, 14, False, body, system=self.sent13[-1][0])
            self.naks.setdefault(self.sent13[-1][0], s.clock)
        elif ev == "s1f14_ok_stale":
            stale = [x for x in self.sent13 if x[1] + self.t3 <= s.clock or x is not self.sent13[-1]]
            if not stale:
                return False
            ep.send_primary(1, 14, False, gh.body_s1f14(0, from_host), system=stale[0][0])
            self.ok = self.ok or "maybe"  # a late answer of this link: either outcome is accepted
        elif ev == "s1f14_ok_alien":
            ep.send_primary(1, 14, False, gh.body_s1f14(0, from_host), system=0x66000000 + ep.next_system())
        elif ev == "s1f1":
            ep.send_primary(1, 1, True)
        elif ev == "user_msg":
            ep.send_primary(5, 1, True, e5.enc(("L", [("B", b"\x81"), ("U4", [7]), ("A", b"alarm")])))
        else:
            raise ValueError(ev)
        s.settle()
        frames = ep.pump()
        self.note(frames)
        self.post(ev, frames, n_calls, must_establish)
        return True

    def link_reset(self):
        self.sent13 = []
        self.ok = False
        self.ep.reset_wire()

    def note(self, frames):
        for f in frames:
            if f["stype"] == 0 and (f["stream"], f["function"]) == (1, 13):
                if self.sent13:
                    # I5: a retry on the same link comes no earlier than the configured delay after the previous attempt failed
                    # (failed = refused by S1F14 COMMACK 1, or unanswered for T3)
                    psys, pt = self.sent13[-1]
                    failed = min(pt + self.t3, self.naks.get(psys, float("inf")))
                    if f["t"] < failed + self.delay - 0.001:
                        self.v("I5-retry-before-the-configured-delay", previous_attempt=round(pt, 3), failed_at=round(failed, 3),
                               retry_at=round(f["t"], 3), delay=self.delay)
                self.sent13.append((f["system"], f["t"]))

    def post(self, ev, frames, n_calls, must_establish):
        comm = self.ep.comm()
        # I1: COMMUNICATING only after a completed exchange with COMMACK 0 on the current link
        if comm == "COMMUNICATING" and not self.ok:
            self.v("I1-communicating-without-completed-exchange", frames=[e37.brief(f) for f in frames])
            self.ok = "reported"
        if comm == "COMMUNICATING" and self.ok == "maybe":
            self.ok = True
        if must_establish and comm != "COMMUNICATING":
            self.v(f"I1-valid-exchange-not-established|got={comm}", frames=[e37.brief(f) for f in frames])
        # I3: link loss / disable leaves the established state
        if ev in ("link_lost", "disable") and comm == "COMMUNICATING":
            self.v("I3-communicating-survives-" + ev)
        # I4: no callback while not communicating
        for name, state in self.calls[n_calls:]:
            if state != "COMMUNICATING":
                self.v(f"I4-callback-{name}-while-{state}")

    def probe_retry(self):
        """I2: from a state with link up, enabled, not communicating: with no further input a new S1F13 appears within T3 + delay."""
        s, ep = self.s, self.ep
        if not (self.enabled and ep.conn.link_up and ep.state() == "CONNECTED_SELECTED" and ep.comm() != "COMMUNICATING"):
            return
        self.last_event = "probe"
        self.pre = ep.comm()
        t0 = s.clock
        n0 = len(self.sent13)
        limit = t0 + self.t3 + self.delay + 0.001
        guard = 0
        while len(self.sent13) == n0 and guard < 50:
            guard += 1
            dl = s.pending_deadlines()
            if not dl or s.clock + dl[0] > limit:
                break
            s.advance()
            self.note(ep.pump())
        if len(self.sent13) == n0:
            self.v("I2-no-retry-within-T3+delay", waited=round(s.clock - t0, 3), state=ep.comm(), deadlines=s.pending_deadlines())

    def canon(self):
        s, ep, h = self.s, self.ep, self.h
        cs = h.communication_state
        flags = sorted(n for n in ("disabled", "enabled", "not_communicating", "wait_cra", "wait_delay", "communicating")
                       if getattr(getattr(cs, n, None), "active", False))
        return {"comm": ep.comm(), "hsms": ep.state(), "enabled": self.enabled, "link": ep.conn.link_up, "flags": flags,
                "deadlines": s.pending_deadlines(), "threads": gh.live_roles(s), "ok": str(self.ok),
                "sent13": [round(s.clock - t, 3) for _, t in self.sent13][-3:], "n13": min(len(self.sent13), 3),
                "queues": len(getattr(h.protocol, "_response_queues", {}) or {})}


def run_history(history, role="equipment", probe=True, timers="default"):
    out = {}

    def driver(s):
        hx = Harness(s, role, timers)
        s.hx = hx
        for i, ev in enumerate(history):
            if not hx.apply(ev):
                out["skip"] = True
                if i != len(history) - 1:
                    out["harness"] = f"inapplicable event {ev} inside stored history {history}"
                return
        out["canon"] = hx.canon()
        if probe:
            hx.probe_retry()

    sched = vrt.run(driver, max_steps=200000, max_time=1e6, line_points=False)
    hx = getattr(sched, "hx", None)
    if sched.harness_failure or sched.driver_exception:
        out["harness"] = (sched.harness_failure or sched.driver_exception)[-1500:]
        return out
    out["v"] = list(hx.viol) if hx else []
    if sched.outcome != "done":
        out["v"].append((f"C07|{role}|execution-{sched.outcome}|event={hx.last_event if hx else None}", {"info": sched.deadlock_info}))
        out.pop("skip", None)
        out["canon"] = {"stuck": sched.outcome, "n": len(history)}
        out["terminal"] = True
    for _sig, d in out["v"]:
        d.setdefault("case", {"role": role, "timers": timers})
    return out


# ------------------------------------------------------------------------------------------ an accepting S1F14 against link loss / T3
REGION = [
    "secsgem.common.state_machine:StateMachine._perform_transition",
    "secsgem.common.state_machine:StateMachine._check_transition_source",
    "secsgem.common.state_machine:StateMachine._execute_transition",
    "secsgem.gem.communication_state_machine:CommunicationStateMachine.*",
    "secsgem.gem.handler:GemHandler._on_message_received",
    "secsgem.gem.handler:GemHandler._on_disconnected",
    "secsgem.gem.handler:GemHandler._on_state_communicating",
    "secsgem.gem.handler:GemHandler._on_state_wait_cra",
]


def run_conc(devs, budgets, role="equipment", against="link_lost"):
    """WAIT_CRA with an S1F13 outstanding; the accepting S1F14 arrives while the link is lost (or exactly when T3 expires).
    Whatever the order: not COMMUNICATING once the link is down, no callback while not communicating, and with the link still up the
    handler is either COMMUNICATING or retries within T3 + delay."""
    box = {}

    def driver(s):
        s.frozen = True
        s.line_points = False
        hx = Harness(s, role)
        for ev in ("enable", "link_up"):
            if not hx.apply(ev):
                box["harness"] = f"set-up event {ev} not applicable"
                return
        if not hx.sent13 or hx.ep.comm() != "WAIT_CRA":
            box["harness"] = f"set-up did not reach WAIT_CRA with an S1F13 outstanding: {hx.ep.comm()} {hx.sent13}"
            return
        ep = hx.ep
        from_host = role != "host"
        if against == "t3":
            # let virtual time run up to just before the T3 deadline of the outstanding S1F13
            s.block(lambda: False, hx.sent13[-1][1] + hx.t3, "until the T3 deadline")  # the answer arrives exactly when T3 expires
        s.frozen = False
        s.line_points = True
        ep.send_primary(1, 14, False, gh.body_s1f14(0, from_host), system=hx.sent13[-1][0])
        if against == "link_lost":
            ep.conn.peer_close()
        s.settle()
        s.line_points = False
        s.frozen = True
        hx.note(ep.pump())
        box["comm"] = ep.comm()
        box["link"] = ep.conn.link_up
        hx.last_event, hx.pre = "after-race", "WAIT_CRA"
        n_calls = len(hx.calls)
        if ep.conn.link_up and ep.state() == "CONNECTED_SELECTED":
            ep.send_primary(5, 1, True, e5.enc(("L", [("B", b"\x81"), ("U4", [7]), ("A", b"alarm")])))
            s.settle()
            hx.note(ep.pump())
            for name, state in hx.calls[n_calls:]:
                if state != "COMMUNICATING":
                    hx.v(f"I4-callback-{name}-while-{state}")
            if ep.comm() != "COMMUNICATING":
                hx.ok = False
                hx.probe_retry()
        box["viol"] = list(hx.viol)
        hx.h.disable()

    sched = vrt.run(driver, devs, budgets, max_steps=400000, max_time=1e6, line_points=True)
    res = {"trace": sched.trace, "v": []}
    case = {"part": "conc", "role": role, "against": against}
    if sched.harness_failure or sched.driver_exception or box.get("harness"):
        res["harness"] = (sched.harness_failure or sched.driver_exception or box.get("harness"))[-1200:]
        res["obs"] = None
        return res
    if sched.outcome != "done":
        res["v"].append((f"C07|{role}|concurrent|execution-{sched.outcome}|{against}", {"case": case, "info": sched.deadlock_info}))
        res["obs"] = sched.outcome
        return res
    res["obs"] = {"comm": box["comm"], "link": box["link"]}
    if not box["link"] and box["comm"] == "COMMUNICATING":
        res["v"].append((f"C07|{role}|concurrent|I3-communicating-on-a-lost-link|S1F14-against-{against}", {"case": case}))
    for sig, d in box["viol"]:
        d["case"] = case
        res["v"].append((sig.replace("|event=", "|concurrent|event="), d))
    return res


def run(ctx):
    # S part first (line tracing before any pool is forked)
    from checks import hsms_harness as hh  # noqa: PLC0415
    from mc import explore  # noqa: PLC0415

    missing = hh.trace_region(REGION)
    if missing:
        ctx.note(f"not line-traced (not found): {missing}")
    kc = 3 if ctx.thorough else 2
    cparts = []
    ctrans = 0
    for role in ("equipment", "host"):
        for against in ("link_lost", "t3"):
            st = explore.explore(ctx, run_conc, {"sched": kc}, f"c07-conc-{role}-{against}", opts={"role": role, "against": against}, chunk=8)
            cparts.append({"role": role, "against": against, "executions": st["executions"], "outcomes": st["distinct_outcomes"],
                           "levels_completed": st["levels_completed"]})
            ctrans += st["executions"]
            if st["levels_completed"] < kc:
                ctx.exhaustive = False
    ctx.setcov("concurrent_explorations", cparts)
    ctx.setcov("delay_bound", kc)
    ctx.assumptions += [
        "concurrent part: the accepting S1F14 (dispatcher thread) against link loss (connection thread) or T3 expiry (timer/requester thread), "
        "every schedule with <= K delays at line granularity of the state-machine engine and the handler's transitions",
        "I5 (added): on one link, an S1F13 retry is not sent before previous-attempt-failure + configured delay (checked in both timer configurations)",
        "I1-I4 of DESIGN.md 3/C07 are the oracle (the statement constrains observable behaviour, not E30's internal sub-states)",
        "a late S1F14 answering an earlier S1F13 of the same link may or may not establish communication (both accepted)",
        "histories settle after every event under the default schedule; timers fire only through the explicit 'tick' event",
    ]
    d0, d1 = (5, 16) if ctx.thorough else (4, 12)
    states = trans = 0
    parts = []
    for role, timers in (("equipment", "default"), ("host", "default"), ("equipment", "short_t3"), ("host", "short_t3"), ("equipment", "wrap")):
        name = f"c07-{role}" + ("" if timers == "default" else "-" + timers)
        st = hbfs.search(ctx, run_history, ALPHABET, name, d0, d1, opts={"role": role, "timers": timers})
        parts.append({"role": role, "timers": dict(zip(("T3", "delay"), TIMERS[timers])), **st})
        states += st["states"]
        trans += st["transitions"]
    ctx.setcov("states", states)
    ctx.setcov("transitions", trans)
    ctx.setcov("traces_validated_against_impl", trans)
    ctx.setcov("parts", parts)
    ctx.setcov("alphabet", ALPHABET)
    ctx.setcov("exhaustive_depth", d0)
    ctx.setcov("max_depth", d1)


def replay(ctx, detail):
    case = detail["case"]
    if case.get("part") == "conc":
        from checks import hsms_harness as hh  # noqa: PLC0415

        hh.trace_region(REGION)
        devs = {int(k): v for k, v in case.get("devs", {}).items()}
        r = run_conc(devs, case.get("budgets", {}), role=case["role"], against=case["against"])
        ctx.evaluations += 1
        print("replayed:", r.get("obs"))
        for sig, d in r["v"]:
            ctx.violation(sig, d)
        return
    role = case.get("role") or case.get("opts", {}).get("role", "equipment")
    timers = case.get("timers") or case.get("opts", {}).get("timers", "default")
    r = run_history(case["history"], role=role, timers=timers)
    ctx.evaluations += 1
    print("replayed history", case["history"], "->", r.get("canon"))
    for sig, d in r.get("v", ()):
        ctx.violation(sig, d)
