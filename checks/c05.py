"""C05 - the HSMS session follows the E37 connect/select state model for every history.

(a) Shape H: history BFS over {connect, peer close, local enable/disable, inbound control and data
    messages with matching / non-matching system bytes, local requests, timer expiry} on a real
    HsmsProtocol (active and passive), against the reference session model below (DESIGN Appendix C).
(b) Shape S: the accepting thread raced against a Select.req already in flight (see c05 part b in run()).
"""
from __future__ import annotations

from checks import hsms_harness as hh
from mc import explore, hbfs, vrt
from ref import e37

LEVEL = "model_checking"
BUDGET = {"quick": 420, "thorough": 3000}

T6 = 5.0
T3 = 45.0

ALPHABET = [
    "connect", "select_req", "data_w", "data_nw", "linktest_req", "deselect_req", "close", "select_rsp0_match",
    "select_rsp0_alien", "select_rsp1_match", "deselect_rsp0_alien", "separate_req", "reject_req", "linktest_rsp_alien",
    "local_request", "data_reply_match", "local_deselect", "deselect_rsp0_match", "deselect_rsp1_match", "tick", "disable", "enable",
    "separate_then_data",
]


class Ref:
    """E37 session reference: NC / NS / SEL plus the endpoint's own open transactions (learnt from its wire)."""

    def __init__(self, active):
        self.active = active
        self.state = "NC"
        self.enabled = True
        self.open = {"select": [], "deselect": [], "linktest": [], "data": []}  # lists of (system, deadline)
        self.delivered_expected = []

    def link_down(self):
        self.state = "NC"
        for k in self.open:
            # a requester whose link vanished simply runs into its timeout; nothing is matched any more
            self.open[k] = []

    def expire(self, clock):
        for k in self.open:
            self.open[k] = [(s, d) for (s, d) in self.open[k] if d > clock]

    def note_wire(self, frames):
        """Frames the endpoint wrote: register its own requests as open transactions."""
        for f in frames:
            if f["stype"] == e37.SELECT_REQ:
                self.open["select"].append((f["system"], f["t"] + T6))
            elif f["stype"] == e37.DESELECT_REQ:
                self.open["deselect"].append((f["system"], f["t"] + T6))
            elif f["stype"] == e37.LINKTEST_REQ:
                self.open["linktest"].append((f["system"], f["t"] + T6))
            elif f["stype"] == e37.DATA and f["w"]:
                self.open["data"].append((f["system"], f["t"] + T3))

    def is_open(self, kind, system):
        return any(s == system for s, _ in self.open[kind])

    def close(self, kind, system):
        self.open[kind] = [(s, d) for (s, d) in self.open[kind] if s != system]


STATE_NAME = {"NC": "NOT_CONNECTED", "NS": "CONNECTED_NOT_SELECTED", "SEL": "CONNECTED_SELECTED"}


class Harness:
    def __init__(self, s, active):
        self.s = s
        self.active = active
        self.ep = hh.Endpoint(active=active, t3=T3, t6=T6)
        self.proto = self.ep.protocol
        self.ref = Ref(active)
        self.viol = []
        self.n_in = 0
        self.delivered = []
        self.local = []  # local request threads: dict(kind, result holder)
        self.proto.events.message_received += self._on_msg
        self.proto.enable()
        self.step = 0
        self.last_event = None

    def _on_msg(self, data):
        m = data["message"]
        self.delivered.append((m.header.system, m.header.stream, m.header.function))

    def v(self, kind, **detail):
        pre = detail.pop("pre", self.pre_state)
        self.viol.append((f"C05|{'active' if self.active else 'passive'}|{kind}|event={self.last_event}|pre={pre}", detail))

    # ------------------------------------------------------------------ events
    def apply(self, ev):
        """Apply one event; returns False if the event is not applicable in the current situation."""
        s, ep, ref, conn = self.s, self.ep, self.ref, self.ep.conn
        self.last_event = ev
        self.pre_state = ref.state
        self.step += 1
        self.n_in += 1
        sysb = 0x5000 + self.n_in
        alien = 0x6000 + self.n_in
        expect = {"rsp": [], "reject_data": [], "deliver": [], "to_waiter": []}
        link = conn.link_up

        def send(frame):
            conn.peer_send(frame)

        if ev == "connect":
            if link or not conn.enabled:
                return False
            conn.peer_connect()
            ref.state = "NS"
        elif ev == "close":
            if not link:
                return False
            conn.peer_close()
            ref.link_down()
        elif ev == "disable":
            if not ref.enabled:
                return False
            ref.enabled = False
            self.proto.disable()
            ref.link_down()
        elif ev == "enable":
            if ref.enabled:
                return False
            ref.enabled = True
            self.proto.enable()
        elif ev == "tick":
            if not s.pending_deadlines():
                return False
            s.advance()
            ref.expire(s.clock)
        elif not link:
            return False  # inbound messages need a link
        elif ev == "select_req":
            send(e37.control(e37.SELECT_REQ, sysb))
            expect["rsp"].append((e37.SELECT_RSP, sysb))
            if ref.state == "NS":
                ref.state = "SEL"
        elif ev in ("select_rsp0_match", "select_rsp1_match"):
            if not ref.open["select"]:
                return False
            m = ref.open["select"][0][0]
            status = 0 if ev == "select_rsp0_match" else 1
            send(e37.control(e37.SELECT_RSP, m, status))
            ref.close("select", m)
            if status == 0 and ref.state == "NS":
                ref.state = "SEL"
        elif ev == "select_rsp0_alien":
            send(e37.control(e37.SELECT_RSP, alien, 0))
        elif ev == "deselect_req":
            send(e37.control(e37.DESELECT_REQ, sysb))
            expect["rsp"].append((e37.DESELECT_RSP, sysb))
            if ref.state == "SEL":
                ref.state = "NS"
        elif ev in ("deselect_rsp0_match", "deselect_rsp1_match"):
            if not ref.open["deselect"]:
                return False
            m = ref.open["deselect"][0][0]
            status = 0 if ev == "deselect_rsp0_match" else 1
            send(e37.control(e37.DESELECT_RSP, m, status))
            ref.close("deselect", m)
            if status == 0 and ref.state == "SEL":
                ref.state = "NS"
        elif ev == "deselect_rsp0_alien":
            send(e37.control(e37.DESELECT_RSP, alien, 0))
        elif ev == "linktest_req":
            send(e37.control(e37.LINKTEST_REQ, sysb))
            expect["rsp"].append((e37.LINKTEST_RSP, sysb))
        elif ev == "linktest_rsp_alien":
            send(e37.control(e37.LINKTEST_RSP, alien))
        elif ev == "separate_req":
            send(e37.control(e37.SEPARATE_REQ, sysb))
            ref.link_down()
        elif ev == "separate_then_data":
            # one TCP segment: Separate.req, then a data message that is still queued when the session ends - it must not reach the application
            if not link:
                return False
            send(e37.control(e37.SEPARATE_REQ, sysb) + e37.data(1, 1, False, alien))
            ref.link_down()
            expect["never_deliver"] = [alien]
        elif ev == "reject_req":
            send(e37.control(e37.REJECT_REQ, alien, 4, rejected_stype=0))
        elif ev in ("data_w", "data_nw"):
            send(e37.data(1, 1, ev == "data_w", alien))
            if ref.state == "SEL":
                expect["deliver"].append(alien)
            else:
                expect["reject_data"].append(alien)
        elif ev == "data_reply_match":
            if not ref.open["data"]:
                return False
            m = ref.open["data"][0][0]
            send(e37.data(1, 2, False, m, b"\x01\x00"))
            ref.close("data", m)
            if ref.state == "SEL":
                expect["to_waiter"].append(m)
            else:
                expect["reject_data"].append(m)
        elif ev == "local_request":
            if ref.state != "SEL" or len(self.local) >= 2:
                return False
            self._spawn_local("data")
        elif ev == "local_deselect":
            if ref.state != "SEL" or len(self.local) >= 2:
                return False
            self._spawn_local("deselect")
        else:
            raise ValueError(ev)

        n_deliv = len(self.delivered)
        s.settle()
        frames = ep.pump()
        ref.note_wire(frames)
        if ev in ("close", "disable", "separate_req", "separate_then_data"):
            ep.reset_wire()
        self.check(ev, frames, expect, self.delivered[n_deliv:])
        return True

    def _spawn_local(self, kind):
        holder = {"kind": kind, "done": False, "result": None, "system": None}
        self.local.append(holder)
        proto = self.proto

        def run():
            if kind == "data":
                fn = self.ep.settings.streams_functions.function(1, 1)()
                r = proto.send_and_waitfor_response(fn)
            else:
                r = proto.send_deselect_req()
            holder["result"] = None if r is None else (r.header.system, r.header.s_type.value, r.header.function)
            holder["done"] = True

        vrt.Thread(target=run, name=f"local-{kind}").start()

    # ------------------------------------------------------------------ oracle
    def check(self, ev, frames, expect, delivered):
        ref = self.ref
        got_state = self.ep.state()
        if got_state != STATE_NAME[ref.state]:
            self.v(f"state|got={got_state}|want={STATE_NAME[ref.state]}", frames=[e37.brief(f) for f in frames])
            # resynchronise the reference with the implementation so that one defect is reported once per history
            ref.state = {v: k for k, v in STATE_NAME.items()}.get(got_state, ref.state)
        # responses to inbound requests: exactly one of the matching type with the request's system bytes
        rsp_types = (e37.SELECT_RSP, e37.DESELECT_RSP, e37.LINKTEST_RSP)
        for stype, sysb in expect["rsp"]:
            n = sum(1 for f in frames if f["stype"] == stype and f["system"] == sysb)
            nrej = sum(1 for f in frames if f["stype"] == e37.REJECT_REQ and f["system"] == sysb)
            if n != 1 and not (n == 0 and nrej == 1 and self.ep.conn.disconnecting):
                self.v(f"response-count|{e37.STYPE_NAMES[stype]}|got={n}", frames=[e37.brief(f) for f in frames])
        expected_rsp = set(expect["rsp"])
        for f in frames:
            if f["stype"] in rsp_types and (f["stype"], f["system"]) not in expected_rsp:
                self.v(f"unexpected-response|{e37.STYPE_NAMES[f['stype']]}", frames=[e37.brief(x) for x in frames])
        for sysb in expect.get("never_deliver", ()):
            if any(d[0] == sysb for d in delivered):
                self.v("data-delivered-after-the-session-ended", delivered=delivered)
        # data outside SELECTED: never delivered, exactly one Reject.req(reason 4) with its system bytes
        for sysb in expect["reject_data"]:
            rej = [f for f in frames if f["stype"] == e37.REJECT_REQ and f["system"] == sysb]
            if len(rej) != 1:
                self.v(f"data-not-selected-reject-count|got={len(rej)}", frames=[e37.brief(f) for f in frames])
            elif rej[0]["function"] != 4:
                self.v(f"data-not-selected-reject-reason|got={rej[0]['function']}", frames=[e37.brief(f) for f in frames])
            if any(d[0] == sysb for d in delivered):
                self.v("data-delivered-while-not-selected", delivered=delivered)
        for f in frames:
            if f["stype"] == e37.REJECT_REQ and f["system"] not in expect["reject_data"] and not any(f["system"] == s for _, s in expect["rsp"]):
                self.v("unexpected-reject", frames=[e37.brief(x) for x in frames])
        # data in SELECTED: delivered exactly once (to the waiting requester or as message_received)
        for sysb in expect["deliver"]:
            n = sum(1 for d in delivered if d[0] == sysb)
            if n != 1:
                self.v(f"selected-data-delivery-count|got={n}", delivered=delivered, frames=[e37.brief(f) for f in frames])
        for sysb in expect["to_waiter"]:
            holders = [h for h in self.local if h["kind"] == "data" and h["done"] and h["result"] and h["result"][0] == sysb]
            if len(holders) != 1 or any(d[0] == sysb for d in delivered):
                self.v("reply-not-handed-to-requester", delivered=delivered, local=[dict(h) for h in self.local])
        extra = [d for d in delivered if d[0] not in expect["deliver"]]
        if extra:
            self.v("unexpected-delivery", delivered=delivered)
        # finished local requests leave the list
        self.local = [h for h in self.local if not h["done"]]

    def canon(self):
        s, ref, ep = self.s, self.ref, self.ep
        proto = self.proto
        live = sorted(_role(t.name) for t in s.threads if t.state != vrt.DONE and t is not s.current)
        return {
            "state": ep.state(), "enabled": ep.conn.enabled, "link": ep.conn.link_up,
            "open": {k: len(v) for k, v in ref.open.items()},
            "deadlines": s.pending_deadlines(),
            "threads": live,
            "queues": len(getattr(proto, "_response_queues", {}) or {}),
            "rxbuf": len(getattr(proto, "_receive_buffer", b"") or b""),
            "local": sorted(h["kind"] for h in self.local),
            "active_flags": sorted(n for n in ("not_connected", "connected", "connected_not_selected", "connected_selected")
                                   if getattr(getattr(proto.connection_state, n, None), "active", False)),
        }


def _role(name):
    for key in ("protocol_receiver", "protocol_dispatcher", "linktestTimer", "sendSelectReqThread", "conn-receiver", "conn-acceptor",
                "local-data", "local-deselect"):
        if key in name:
            return key
    return name


def run_history(history, active=False):
    out = {}

    def driver(s):
        h = Harness(s, active)
        s.h = h
        for i, ev in enumerate(history):
            ok = h.apply(ev)
            if not ok:
                out["skip"] = True
                if i != len(history) - 1:
                    out["harness"] = f"inapplicable event {ev} inside a stored history {history}"
                return
        out["canon"] = h.canon()

    sched = vrt.run(driver, max_steps=100000, max_time=100000.0, line_points=False)
    h = getattr(sched, "h", None)
    if sched.harness_failure or sched.driver_exception:
        out["harness"] = (sched.harness_failure or sched.driver_exception)[-1200:]
        return out
    out["v"] = list(h.viol) if h else []
    if sched.outcome != "done":
        out["v"].append((f"C05|{'active' if active else 'passive'}|execution-{sched.outcome}|event={history[-1] if history else None}",
                         {"info": sched.deadlock_info}))
        out.pop("skip", None)
        out["canon"] = {"stuck": sched.outcome, "history_len": len(history)}
        out["terminal"] = True
    for sig, d in out["v"]:
        d.setdefault("case", {"active": active})
    return out


# ---------------------------------------------------------------------- part (b): accept race
REGION_B = [
    "secsgem.hsms.protocol:HsmsProtocol._on_connected",
    "secsgem.hsms.protocol:HsmsProtocol._on_connection_message_received",
    "secsgem.hsms.protocol:HsmsProtocol.__handle_hsms_requests_select_req",
    "secsgem.hsms.protocol:HsmsProtocol.__handle_hsms_requests_select_rsp",
    "secsgem.hsms.protocol:HsmsProtocol._process_received_data",
    "secsgem.common.protocol_dispatcher:ProtocolDispatcher.start",
    "secsgem.common.protocol_dispatcher:ProtocolDispatcher._receiver_thread_function",
    "secsgem.common.protocol_dispatcher:ProtocolDispatcher._dispatcher_thread_function",
    "secsgem.common.state_machine:StateMachine._perform_transition",
    "secsgem.common.protocol:Protocol._on_connection_data_received",
]


def run_race(devs, budgets, active=False):
    """The peer's first frame is already in flight when the connection is accepted."""
    box = {}

    def driver(s):
        ep = hh.Endpoint(active=active, t6=T6)
        box["ep"] = ep
        ep.protocol.enable()
        conn = ep.conn
        conn.peer_connect()
        if active:
            # answer the endpoint's Select.req as soon as it is on the wire
            s.block(lambda: len(conn.sent) > 0, s.clock + 1.0, "wait select.req")
            frs = ep.pump()
            for f in frs:
                if f["stype"] == e37.SELECT_REQ:
                    conn.peer_send(e37.control(e37.SELECT_RSP, f["system"]))
        else:
            conn.peer_send(e37.control(e37.SELECT_REQ, 0x5001))
        conn.peer_send(e37.data(1, 1, False, 0x6001))
        s.settle()
        ep.pump()
        box["frames"] = list(ep.frames)
        box["state"] = ep.state()
        box["errors"] = list(conn.errors)

    delivered = []

    def wrap(s):
        driver(s)

    sched = vrt.run(wrap, devs, budgets, max_steps=50000, max_time=1000.0)
    res = {"trace": sched.trace, "v": []}
    if sched.harness_failure or sched.driver_exception:
        res["harness"] = (sched.harness_failure or sched.driver_exception)[-1000:]
        res["obs"] = None
        return res
    frames = box.get("frames", [])
    state = box.get("state")
    kinds = [e37.brief(f).split("#")[0] for f in frames]
    res["obs"] = {"state": state, "frames": kinds, "outcome": sched.outcome}
    mode = "active" if active else "passive"
    if sched.outcome != "done":
        res["v"].append((f"C05|race|{mode}|execution-{sched.outcome}", {"info": sched.deadlock_info}))
    elif not active:
        n_rsp = sum(1 for f in frames if f["stype"] == e37.SELECT_RSP and f["system"] == 0x5001)
        if n_rsp != 1:
            res["v"].append((f"C05|race|passive|select-rsp-count={n_rsp}", {"frames": kinds, "state": state}))
        if state != "CONNECTED_SELECTED":
            res["v"].append((f"C05|race|passive|select-answered-but-state={state}", {"frames": kinds}))
    else:
        if state != "CONNECTED_SELECTED":
            res["v"].append((f"C05|race|active|select-rsp-received-but-state={state}", {"frames": kinds}))
    for sig, d in res["v"]:
        d["case"] = {"active": active, "part": "race"}
    return res


def run_loss_race(devs, budgets, first="select"):
    """The peer's request is still being handled by the dispatcher thread when the peer closes the connection: the transition the request
    asks for and the disconnect transition are requested from two threads.  Whatever the order, the closed connection ends in NOT CONNECTED
    and the next connection starts in NOT SELECTED and can be selected."""
    box = {}

    def driver(s):
        s.frozen = True
        ep = hh.Endpoint(active=False, t6=T6)
        conn = ep.conn
        ep.protocol.enable()
        conn.peer_connect()
        s.settle()
        if first in ("deselect", "data", "linktest"):
            conn.peer_send(e37.control(e37.SELECT_REQ, 0x5000))
            s.settle()
        ep.pump()
        s.frozen = False
        if first == "select":
            conn.peer_send(e37.control(e37.SELECT_REQ, 0x5001))
        elif first == "deselect":
            conn.peer_send(e37.control(e37.DESELECT_REQ, 0x5001))
        elif first == "linktest":
            conn.peer_send(e37.control(e37.LINKTEST_REQ, 0x5001))
        else:
            conn.peer_send(e37.data(1, 1, True, 0x5001))
        conn.peer_close()
        s.settle()
        box["state_closed"] = ep.state()
        box["connected_closed"] = bool(ep.protocol._connection.connected) if hasattr(ep.protocol._connection, "connected") else None
        s.frozen = True
        ep.pump()
        ep.reset_wire()
        n0 = len(ep.frames)
        conn.peer_connect()
        s.settle()
        box["state_next"] = ep.state()
        conn.peer_send(e37.control(e37.SELECT_REQ, 0x5002))
        s.settle()
        ep.pump()
        box["next_frames"] = list(ep.frames[n0:])
        box["state_selected"] = ep.state()
        box["errors"] = list(conn.errors)

    sched = vrt.run(driver, devs, budgets, max_steps=80000, max_time=1000.0)
    res = {"trace": sched.trace, "v": []}
    if sched.harness_failure or sched.driver_exception:
        res["harness"] = (sched.harness_failure or sched.driver_exception)[-1000:]
        res["obs"] = None
        return res
    res["obs"] = {k: box.get(k) for k in ("state_closed", "state_next", "state_selected")}
    res["obs"]["outcome"] = sched.outcome
    if sched.outcome != "done":
        res["v"].append((f"C05|loss-race|{first}|execution-{sched.outcome}", {"info": sched.deadlock_info}))
    else:
        if box.get("state_closed") != "NOT_CONNECTED":
            res["v"].append((f"C05|loss-race|{first}|closed-connection-but-state={box.get('state_closed')}", {"obs": res["obs"]}))
        if box.get("state_next") != "CONNECTED_NOT_SELECTED":
            res["v"].append((f"C05|loss-race|{first}|next-connection-starts-in={box.get('state_next')}", {"obs": res["obs"], "errors": box.get("errors")}))
        n_rsp = sum(1 for f in box.get("next_frames", []) if f["stype"] == e37.SELECT_RSP and f["system"] == 0x5002)
        if n_rsp != 1 or box.get("state_selected") != "CONNECTED_SELECTED":
            res["v"].append((f"C05|loss-race|{first}|next-connection-select-rsp={n_rsp}|state={box.get('state_selected')}", {"obs": res["obs"]}))
    for sig, d in res["v"]:
        d["case"] = {"part": "loss-race", "first": first}
    return res


def run(ctx):
    ctx.assumptions += [
        "reference session model = DESIGN.md Appendix C (E37 NOT CONNECTED / NOT SELECTED / SELECTED); the status byte of responses is not constrained",
        "T7/T8 are not modelled (not in the statement's event list); histories settle after every event (default schedule); "
        "interleavings are explored separately by the accept-race driver with delay bound K",
        "in-memory LoopConnection raises connection events from the same thread roles as TcpConnection",
    ]
    d0, d1 = (4, 12) if ctx.thorough else (3, 9)
    tot_states = tot_trans = 0
    parts = []
    # (b) first: it needs line tracing, which must be configured before the worker pool is forked
    missing = hh.trace_region(REGION_B)
    if missing:
        ctx.note(f"accept-race region not found (not line-traced): {missing}")
    for active in (False, True):
        budgets = {"sched": 3 if ctx.thorough else 2}
        st = explore.explore(ctx, run_race, budgets, f"c05-race-{'active' if active else 'passive'}", opts={"active": active})
        parts.append({"part": "accept-race", "active": active, "budgets": budgets, **st})
        tot_trans += st["executions"]
        tot_states += st["distinct_outcomes"]
        if st["levels_completed"] < sum(budgets.values()):
            ctx.exhaustive = False
    for first in ("select", "deselect", "data", "linktest"):
        budgets = {"sched": 3 if ctx.thorough else 2}
        st = explore.explore(ctx, run_loss_race, budgets, f"c05-loss-race-{first}", opts={"first": first})
        parts.append({"part": "request-vs-link-loss", "first": first, "budgets": budgets, **st})
        tot_trans += st["executions"]
        tot_states += st["distinct_outcomes"]
        if st["levels_completed"] < sum(budgets.values()):
            ctx.exhaustive = False
    for active in (False, True):
        st = hbfs.search(ctx, run_history, ALPHABET, f"c05-{'active' if active else 'passive'}", d0, d1, opts={"active": active})
        parts.append({"part": "history-bfs", "active": active, **st})
        tot_states += st["states"]
        tot_trans += st["transitions"]
        if not st["closed"]:
            ctx.note(f"history BFS ({'active' if active else 'passive'}) not closed at depth {st['max_depth']}: bounded result")
    ctx.setcov("states", tot_states)
    ctx.setcov("transitions", tot_trans)
    ctx.setcov("traces_validated_against_impl", tot_trans)
    ctx.setcov("parts", parts)
    ctx.setcov("alphabet", ALPHABET)
    ctx.setcov("exhaustive_depth", d0)
    ctx.setcov("max_depth", d1)


def replay(ctx, detail):
    case = detail["case"]
    if case.get("part") == "loss-race":
        hh.trace_region(REGION_B)
        devs = {int(k): v for k, v in case.get("devs", {}).items()}
        r = run_loss_race(devs, case["budgets"], first=case["first"])
        print("replayed:", r["obs"])
    elif case.get("part") == "race":
        hh.trace_region(REGION_B)
        devs = {int(k): v for k, v in case.get("devs", {}).items()}
        r = run_race(devs, case["budgets"], active=case["active"])
        r2 = run_race(devs, case["budgets"], active=case["active"])
        if r["obs"] != r2["obs"]:
            ctx.harness_error("replay not deterministic")
        print("replayed:", r["obs"])
    else:
        r = run_history(case["history"], active=case.get("active", case.get("opts", {}).get("active", False)))
        print("replayed history", case["history"], "->", r.get("canon"))
    ctx.evaluations += 1
    for sig, d in r.get("v", ()):
        ctx.violation(sig, d)
