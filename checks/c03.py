"""C03 - every catalogued stream/function round-trips and is found by its S/F numbers.

Shape E: for each of the catalogued functions the structure is read by an independent SFDL reader, a
default value is built and every value at one deviation from it (two thorough) is enumerated: every open
list at length 0/2/3, every dynamic leaf in every allowed alternative type (as a typed variable checked
byte-for-byte against the reference codec, and as a plain python value read back unchanged), every
length-limited leaf at its limit and one beyond (must be rejected).  Each value is encoded, wrapped in a
message carrying only S and F and decoded through StreamsFunctions.decode.  The catalogue relations
(YAML vs classes, F/F+1 pairing, directions, lookup of all 128x256 numbers) are checked completely.
"""
from __future__ import annotations

import copy
import itertools
import os

from checks import c19
from checks import common_e5 as ce
from mc import loader
from ref import e5, sfdl

loader.load()
import secsgem.hsms  # noqa: E402
import secsgem.secs  # noqa: E402
import secsgem.secs.data_items as DI  # noqa: E402,N812
import secsgem.secs.functions as F  # noqa: E402,N812

LEVEL = "exploration"
BUDGET = {"quick": 300, "thorough": 2400}
V = ce.V
CODE_OF = {v: k for k, v in ce.VCLASS.items()}
CODE_OF[V.Array] = "L"

DEFAULT_VALS = {"A": [0x61], "B": [0x01], "BOOLEAN": [True], "F4": [1.5], "F8": [-2.25], "J": [0x41],
                "U1": [1], "U2": [300], "U4": [70000], "U8": [2 ** 40], "I1": [-1], "I2": [-300], "I4": [-70000], "I8": [-(2 ** 40)]}


def function_classes():
    out = []
    for name in sorted(dir(F)):
        if name.startswith("SecsS") and name[5:7].isdigit():
            out.append(getattr(F, name))
    return out


def item_info(name):
    cls = getattr(DI, name)
    dynamic = cls.__type__ is V.Dynamic
    types = [CODE_OF[t] for t in (cls.__allowedtypes__ if dynamic else [cls.__type__]) if t in CODE_OF]
    return {"dynamic": dynamic, "types": types, "count": cls.__count__}


# ---------------------------------------------------------------------------------------------- value specs
def default_spec(tree):
    """spec: {"k": "leaf", "di", "code", "vals"} | {"k": "array", "name", "items": [spec], "proto": tree} | {"k": "record", "fields": [(key, spec)]}"""
    if tree[0] == "item":
        info = item_info(tree[1])
        code = info["types"][0]
        return {"k": "leaf", "di": tree[1], "code": code, "vals": leaf_default(code, info["count"])}
    _, _name, children = tree
    if len(children) == 1:
        return {"k": "array", "items": [default_spec(children[0])], "proto": children[0]}
    return {"k": "record", "fields": [(sfdl.key_in_record(ch), default_spec(ch)) for ch in children]}


def leaf_default(code, count):
    if code == "L":
        return [("U1", [7])]
    vals = list(DEFAULT_VALS[code])
    return vals


def nodes(spec, acc=None, path=()):
    acc = [] if acc is None else acc
    acc.append((path, spec))
    if spec["k"] == "array":
        for i, it in enumerate(spec["items"]):
            nodes(it, acc, path + (i,))
    elif spec["k"] == "record":
        for i, (_k, it) in enumerate(spec["fields"]):
            nodes(it, acc, path + (i,))
    return acc


def get_at(spec, path):
    for p in path:
        spec = spec["items"][p] if spec["k"] == "array" else spec["fields"][p][1]
    return spec


def deviations(spec):
    """All single deviations available in a spec: (path, kind, arg)."""
    out = []
    for path, node in nodes(spec):
        if node["k"] == "array":
            for n in (0, 2, 3):
                out.append((path, "len", n))
        elif node["k"] == "leaf":
            info = item_info(node["di"])
            for code in info["types"]:
                if code != node["code"]:
                    out.append((path, "type", code))
            cnt = info["count"]
            if cnt > 0:
                for code in info["types"][:2]:
                    if code != "L":
                        out.append((path, "count", [code, cnt]))
                        out.append((path, "count", [code, cnt + 1]))
            else:
                code = node["code"]
                if code != "L":
                    out.append((path, "count", [code, 0]))
                    out.append((path, "count", [code, 3]))
    return out


def apply_dev(spec, dev):
    spec = copy.deepcopy(spec)
    path, kind, arg = dev
    node = get_at(spec, tuple(path))
    reject = False
    if kind == "len":
        node["items"] = [default_spec(node["proto"]) for _ in range(arg)]
    elif kind == "type":
        node["code"] = arg
        node["vals"] = leaf_default(arg, item_info(node["di"])["count"])
    elif kind == "count":
        code, n = arg
        node["code"] = code
        base = DEFAULT_VALS[code][0]
        node["vals"] = [base] * n
        cnt = item_info(node["di"])["count"]
        reject = cnt > 0 and n > cnt
    return spec, reject


def to_node(spec):
    if spec["k"] == "leaf":
        if spec["code"] == "L":
            return ("L", [tuple(x) if not isinstance(x, tuple) else x for x in [(c, v) for c, v in spec["vals"]]])
        v = spec["vals"]
        if spec["code"] in ("A", "B", "J"):
            return (spec["code"], bytes(v))
        if spec["code"] == "BOOLEAN":
            return ("BOOLEAN", [bool(x) for x in v])
        return (spec["code"], list(v))
    if spec["k"] == "array":
        return ("L", [to_node(it) for it in spec["items"]])
    return ("L", [to_node(it) for _k, it in spec["fields"]])


def to_input(spec, plain):
    """Constructor input: typed variable objects at dynamic leaves (or plain python values everywhere when plain=True)."""
    if spec["k"] == "leaf":
        node = to_node(spec)
        info = item_info(spec["di"])
        if plain or not info["dynamic"]:
            return e5.py_value(node)
        return ce.build_var(node)
    if spec["k"] == "array":
        return [to_input(it, plain) for it in spec["items"]]
    return {k: to_input(it, plain) for k, it in spec["fields"]}


def expected_get(spec):
    if spec["k"] == "leaf":
        return e5.py_value(to_node(spec))
    if spec["k"] == "array":
        return [expected_get(it) for it in spec["items"]]
    return {k: expected_get(it) for k, it in spec["fields"]}


def plain_ok(spec):
    """Can this spec be given as plain python values without ambiguity? (bytes for an item that also allows text is ambiguous,
    floats only where the first float type is the spec's, nested lists for L items are a separate known case.)"""
    for _p, node in nodes(spec):
        if node["k"] != "leaf":
            continue
        info = item_info(node["di"])
        code = node["code"]
        if not info["dynamic"]:
            continue
        if code == "B" and ("A" in info["types"] or len(node["vals"]) == 1):
            return False
        if code == "J":
            return False
        if code in ("F4", "F8") and [c for c in info["types"] if c in ("F4", "F8")][0] != code:
            return False
        if code == "BOOLEAN" and "BOOLEAN" not in info["types"]:
            return False
    return True


def same(a, b):
    if isinstance(a, dict) or isinstance(b, dict):
        return isinstance(a, dict) and isinstance(b, dict) and list(a) == list(b) and all(same(a[k], b[k]) for k in a)
    if isinstance(a, list) or isinstance(b, list):
        return isinstance(a, list) and isinstance(b, list) and len(a) == len(b) and all(same(x, y) for x, y in zip(a, b))
    if isinstance(a, (str, bytes)) or isinstance(b, (str, bytes)):
        return type(a) is type(b) and a == b
    return a == b


SF = None


def streams_functions():
    global SF
    if SF is None:
        SF = secsgem.secs.functions.StreamsFunctions()
    return SF


def wire_roundtrip(cls, obj):
    body = obj.encode()
    header = secsgem.hsms.HsmsStreamFunctionHeader(77, cls.stream, cls.function, cls._is_reply_required, 0)
    msg = secsgem.hsms.HsmsMessage(header, body)
    back = streams_functions().decode(msg)
    return body, back


def check_value(case):
    cls = getattr(F, case["cls"])
    tree = c19.parse_text(cls._data_format) if isinstance(cls._data_format, str) else None
    name = case["cls"][4:]
    out = []
    if tree is None:
        # header only
        try:
            body, back = wire_roundtrip(cls, cls())
            if body != b"" or type(back) is not cls or back.get() is not None:
                out.append((f"C03|header-only-function-roundtrip|{name}", {"case": case}))
        except Exception as exc:  # noqa: BLE001
            out.append((f"C03|header-only-function-raises|{name}", {"case": case, "error": repr(exc)}))
        return {"v": out, "nt": False}
    spec = default_spec(tree)
    reject = False
    kinds = []
    for dev in case.get("devs", []):
        spec, r = apply_dev(spec, (tuple(dev[0]), dev[1], dev[2]))
        reject = reject or r
        kinds.append(dev[1] if dev[1] != "count" else ("count+1" if r else "count"))
    kind = "+".join(kinds) or "default"
    node = to_node(spec)
    want_bytes = e5.enc(node)
    want_get = expected_get(spec)
    modes = [("typed", False)] + ([("plain", True)] if plain_ok(spec) else [])
    for mode, plain in modes:
        sig = f"{name}|{mode}|{kind}"
        try:
            value = to_input(spec, plain)
            obj = cls(value)
        except Exception as exc:  # noqa: BLE001
            if not reject:
                leafinfo = _dev_leaf(spec, case)
                out.append((f"C03|conforming-value-rejected|{mode}|{kind}|{leafinfo}", {"case": case, "error": repr(exc)[:300], "value": repr(want_get)[:300]}))
            continue
        if reject:
            # a value beyond the declared length limit does not conform: the statement does not say it must be rejected (observed only)
            return {"v": out, "nt": True, "cnt": {"over_long_values_accepted": 1}}
        try:
            g = obj.get()
            if not same(want_get, g):
                out.append((f"C03|constructor-value-not-read-back|{sig}", {"case": case, "got": repr(g)[:300], "want": repr(want_get)[:300]}))
            body, back = wire_roundtrip(cls, obj)
            if not plain and body != want_bytes:
                out.append((f"C03|body-bytes-differ-from-E5|{sig}", {"case": case, "got": body[:64].hex(), "want": want_bytes[:64].hex()}))
            if type(back) is not cls:
                out.append((f"C03|decoded-as-other-function|{name}", {"case": case, "got": type(back).__name__}))
            elif not same(want_get, back.get()):
                out.append((f"C03|decoded-value-differs|{sig}", {"case": case, "got": repr(back.get())[:300], "want": repr(want_get)[:300]}))
            elif back.encode() != body:
                out.append((f"C03|reencode-differs|{sig}", {"case": case}))
            # second use of an object: one that held the function's default value is given this value with set(): same bytes as a fresh one
            if case.get("devs"):
                try:
                    used = cls(to_input(default_spec(tree), plain and plain_ok(default_spec(tree))))
                    used.set(to_input(spec, plain))
                    if used.encode() != body:
                        out.append((f"C03|value-set-into-a-used-object-differs-from-a-fresh-one|{mode}|{kind}|{_dev_leaf(spec, case)}",
                                    {"case": case, "got": bytes(used.encode())[:64].hex(), "want": bytes(body)[:64].hex()}))
                    # and the other way round: an object that held this value is given the default value
                    dflt = to_input(default_spec(tree), plain and plain_ok(default_spec(tree)))
                    fresh = cls(dflt).encode()
                    obj.set(dflt)
                    if obj.encode() != fresh:
                        out.append((f"C03|default-set-into-a-used-object-differs-from-a-fresh-one|{mode}|{kind}|{_dev_leaf(spec, case)}",
                                    {"case": case, "got": bytes(obj.encode())[:64].hex(), "want": bytes(fresh)[:64].hex()}))
                except Exception as exc:  # noqa: BLE001
                    out.append((f"C03|set-into-a-used-object-raises|{mode}|{kind}|{_dev_leaf(spec, case)}", {"case": case, "error": repr(exc)[:200]}))
        except Exception as exc:  # noqa: BLE001
            out.append((f"C03|roundtrip-raises|{mode}|{kind}|{_dev_leaf(spec, case)}", {"case": case, "error": repr(exc)[:300], "value": repr(want_get)[:200]}))
    return {"v": out, "nt": bool(case.get("devs")), "cnt": {"values": len(modes)}}


def _dev_leaf(spec, case):
    """Describe the deviated leaf by data item and type (not by function): one defect -> one signature."""
    devs = case.get("devs", [])
    if not devs:
        return "default"
    parts = []
    for dev in devs:
        try:
            node = get_at(spec, tuple(dev[0]))
            if node["k"] == "leaf":
                parts.append(f"{node['di']}:{node['code']}[{len(node['vals'])}]")
            else:
                parts.append(f"list[{len(node['items'])}]")
        except (IndexError, KeyError):
            parts.append("?")
    return "+".join(parts)


def check_plain_ints(case):
    """Plain python values of several magnitudes for every dynamic leaf of a function (constructor -> get -> wire -> get)."""
    cls = getattr(F, case["cls"])
    tree = c19.parse_text(cls._data_format)
    spec = default_spec(tree)
    out = []
    n = 0
    for path, node in nodes(spec):
        if node["k"] != "leaf":
            continue
        info = item_info(node["di"])
        if not info["dynamic"] or info["count"] > 0:
            continue
        cands = []
        ints = [c for c in info["types"] if c in e5.INT_W]
        if ints:
            lo = min(e5.int_range(c)[0] for c in ints)
            hi = max(e5.int_range(c)[1] for c in ints)
            cands += [v for v in (0, 1, 255, 256, 65535, 65536, 2 ** 32 - 1, 2 ** 32, 2 ** 64 - 1, -1, -128, -129, -32769, -(2 ** 31) - 1,
                                  -(2 ** 63)) if lo <= v <= hi]
        if "A" in info["types"]:
            cands += ["", "text", "x" * 300]
        if "BOOLEAN" in info["types"]:
            cands += [True, False]
        if "L" in info["types"]:
            cands += [[1, 2, 3], []]
        for val in cands:
            s2 = copy.deepcopy(spec)
            leaf = get_at(s2, path)
            want = expected_get(s2)
            value = to_input(s2, True)
            value = _set_path(value, s2, path, val)
            want = _set_path(want, s2, path, val)
            n += 1
            sig = f"{node['di']}|{type(val).__name__}|{_mag(val)}"
            try:
                obj = cls(value)
                g = obj.get()
                if not same(want, g):
                    out.append((f"C03|plain-value-not-read-back|{sig}", {"case": case, "value": repr(val)[:80], "got": repr(g)[:200]}))
                    continue
                _body, back = wire_roundtrip(cls, obj)
                if type(back) is not cls or not same(want, back.get()):
                    out.append((f"C03|plain-value-changed-on-the-wire|{sig}", {"case": case, "value": repr(val)[:80], "got": repr(back.get())[:200]}))
            except Exception as exc:  # noqa: BLE001
                out.append((f"C03|plain-value-raises|{sig}", {"case": case, "value": repr(val)[:80], "error": repr(exc)[:200], "leaf": leaf["di"]}))
    return {"v": out, "nt": n > 0, "cnt": {"values": n}}


def _mag(v):
    if isinstance(v, bool):
        return str(v)
    if isinstance(v, int):
        return "neg" if v < 0 else ("<=255" if v <= 255 else ("<=65535" if v <= 65535 else ("<=2^32-1" if v < 2 ** 32 else "big")))
    if isinstance(v, (str, list)):
        return f"len{min(len(v), 4)}"
    return "-"


def _set_path(value, spec, path, new):
    if not path:
        return new
    value = copy.deepcopy(value)
    cur, sp = value, spec
    for i, p in enumerate(path):
        last = i == len(path) - 1
        if sp["k"] == "array":
            if last:
                cur[p] = new
            else:
                cur = cur[p]
            sp = sp["items"][p]
        else:
            key = sp["fields"][p][0]
            if last:
                cur[key] = new
            else:
                cur = cur[key]
            sp = sp["fields"][p][1]
    return value


def check_catalogue(_case):
    import yaml  # noqa: PLC0415

    out = []
    path = os.path.join(os.path.dirname(secsgem.secs.__file__), "functions.yaml")
    with open(path) as f:
        cat = yaml.safe_load(f)
    classes = {(c.stream, c.function): c for c in function_classes()}
    sf = streams_functions()
    n = 0
    for key, entry in cat.items():
        s, fn = int(key[1:3]), int(key[4:6])
        if (s, fn) == (0, 0):
            continue
        n += 1
        cls = classes.get((s, fn))
        if cls is None:
            out.append((f"C03|catalogue-yaml-entry-without-class|{key}", {}))
            continue
        pairs = [("to_host", cls._to_host), ("to_equipment", cls._to_equipment), ("reply", cls._has_reply),
                 ("reply_required", cls._is_reply_required), ("multi_block", cls._is_multi_block)]
        for k, v in pairs:
            if bool(entry.get(k)) != bool(v):
                out.append((f"C03|catalogue-yaml-vs-class|{k}", {"function": key, "yaml": entry.get(k), "class": v}))
        ytoks = (entry.get("structure") or "").replace("<", " < ").replace(">", " > ").split()
        ctoks = (cls._data_format or "").replace("<", " < ").replace(">", " > ").split() if isinstance(cls._data_format, str) else []
        if ytoks != ctoks:
            out.append(("C03|catalogue-yaml-vs-class|structure", {"function": key}))
    for (s, fn), cls in classes.items():
        if f"S{s:02d}F{fn:02d}" not in cat:
            out.append((f"C03|catalogue-class-without-yaml-entry|S{s}F{fn}", {}))
        if fn % 2 == 1:
            partner = classes.get((s, fn + 1))
            if bool(cls._has_reply) != (partner is not None):
                out.append(("C03|pairing|has-reply-vs-partner-exists", {"function": f"S{s}F{fn}", "has_reply": cls._has_reply}))
            if cls._is_reply_required and not cls._has_reply:
                out.append(("C03|pairing|reply-required-without-reply", {"function": f"S{s}F{fn}"}))
            if partner is not None:
                if (bool(cls._to_host), bool(cls._to_equipment)) != (bool(partner._to_equipment), bool(partner._to_host)):
                    out.append(("C03|pairing|directions-do-not-mirror", {"function": f"S{s}F{fn}"}))
        else:
            if cls._has_reply or cls._is_reply_required:
                out.append(("C03|pairing|secondary-expects-reply", {"function": f"S{s}F{fn}"}))
    # lookup of every number
    for s in range(128):
        for fn in range(256):
            n += 1
            try:
                got = sf.function(s, fn)
            except Exception as exc:  # noqa: BLE001
                out.append(("C03|lookup-raises", {"s": s, "f": fn, "error": repr(exc)}))
                continue
            want = classes.get((s, fn))
            if got is not want:
                out.append((f"C03|lookup-{'wrong-class' if want is not None and got is not None else ('finds-uncatalogued' if want is None else 'misses-catalogued')}",
                            {"s": s, "f": fn, "got": getattr(got, "__name__", None)}))
    for sig, d in out:
        d["case"] = {"kind": "catalogue"}
    return {"v": out, "nt": True, "cnt": {"catalogue_checks": n}}


def check_instances(_case):
    """The flags a protocol layer reads from a function *object* agree with the declaration (class = YAML, see catalogue)."""
    out = []
    n = 0
    for cls in function_classes():
        try:
            obj = cls()
        except Exception as exc:  # noqa: BLE001
            out.append(("C03|instance-default-construction-raises", {"function": cls.__name__, "error": repr(exc)[:200]}))
            continue
        for attr, want in (("stream", cls._stream), ("function", cls._function), ("to_host", cls._to_host), ("to_equipment", cls._to_equipment),
                           ("has_reply", cls._has_reply), ("is_reply_required", cls._is_reply_required), ("is_multi_block", cls._is_multi_block)):
            n += 1
            got = getattr(obj, attr, "<missing>")
            if got != want or type(got) is not type(want):
                out.append((f"C03|instance-flag-differs-from-declaration|{attr}", {"function": cls.__name__, "object": repr(got), "declared": repr(want)}))
    for sig, d in out:
        d["case"] = {"kind": "instances"}
    return {"v": out, "nt": True, "cnt": {"instance_flag_checks": n}}


def check_isolation(case):
    """Customising one container (update) leaves the catalogue seen by every other container - existing or created later - unchanged."""
    out = []
    cls = getattr(F, case["cls"])
    older = secsgem.secs.functions.StreamsFunctions()
    mine = secsgem.secs.functions.StreamsFunctions()
    custom = type(cls.__name__ + "Custom", (cls,), {"__doc__": cls.__doc__})
    try:
        # look it up first (a container may cache its look-ups), then customise, then look it up again
        if mine.function(cls._stream, cls._function) is not cls:
            out.append(("C03|lookup-wrong-class-before-update", {"case": case}))
        mine.update(custom)
        if mine.function(cls._stream, cls._function) is not custom:
            out.append(("C03|update-not-visible-in-own-container", {"case": case}))
        # a function number the catalogue does not have: not found before, found after update()
        extra = type("SecsS64F%02d" % (cls._function | 1), (cls,), {"_stream": 64, "_function": cls._function | 1, "__doc__": cls.__doc__})
        if mine.function(64, extra._function) is not None:
            out.append(("C03|lookup-finds-uncatalogued", {"case": case}))
        mine.update(extra)
        if mine.function(64, extra._function) is not extra:
            out.append(("C03|added-function-not-found-after-update", {"case": case}))
        newer = secsgem.secs.functions.StreamsFunctions()
        for label, cont in (("older", older), ("newer", newer)):
            got = cont.function(cls._stream, cls._function)
            if got is not cls:
                out.append((f"C03|update-leaks-into-{label}-container", {"case": case, "got": getattr(got, "__name__", None)}))
    except Exception as exc:  # noqa: BLE001
        out.append(("C03|update-raises", {"case": case, "error": repr(exc)[:200]}))
    finally:
        # keep the worker's own catalogue intact whatever the library did (a leak is reported above, not propagated)
        for cont in (older, streams_functions()):
            try:
                if cont.function(cls._stream, cls._function) is not cls:
                    cont.update(cls)
            except Exception:  # noqa: BLE001
                pass
    return {"v": out, "nt": True}


def check_case(case):
    return {"value": check_value, "plain": check_plain_ints, "catalogue": check_catalogue, "instances": check_instances,
            "isolation": check_isolation}[case["kind"]](case)


def cases(ctx):
    yield {"kind": "catalogue"}
    yield {"kind": "instances"}
    for cls in function_classes():
        yield {"kind": "isolation", "cls": cls.__name__}
    for cls in function_classes():
        name = cls.__name__
        tree = c19.parse_text(cls._data_format) if isinstance(cls._data_format, str) else None
        yield {"kind": "value", "cls": name}
        if tree is None:
            continue
        spec = default_spec(tree)
        devs = deviations(spec)
        for d in devs:
            yield {"kind": "value", "cls": name, "devs": [[list(d[0]), d[1], d[2]]]}
        if ctx.thorough:
            for d1, d2 in itertools.combinations(devs, 2):
                if d1[0] == d2[0] or _prefix(d1[0], d2[0]) or _prefix(d2[0], d1[0]):
                    continue
                yield {"kind": "value", "cls": name, "devs": [[list(d1[0]), d1[1], d1[2]], [list(d2[0]), d2[1], d2[2]]]}
        yield {"kind": "plain", "cls": name}


def _prefix(a, b):
    return len(a) < len(b) and tuple(b[:len(a)]) == tuple(a)


def run(ctx):
    ctx.assumptions += [
        "the structure of each function is read by an independent SFDL reader (checks/c19.parse_text + ref/sfdl.py naming rules); leaf types "
        "come from the data item classes (__type__, __allowedtypes__, __count__)",
        "typed values are compared byte for byte with ref/e5.py; plain python values are only required to be read back unchanged "
        "(which E5 type the library picks for them is not constrained)",
        "plain bytes for an item that also allows text, and floats where another float width comes first, are not generated (ambiguous)",
    ]
    ctx.setcov("rule", "134 functions x (default value + every single deviation [+ every pair of deviations thorough]): open list lengths 0/2/3, "
                       "each allowed alternative type, count limit and limit+1; plain python values of boundary magnitudes per dynamic leaf; the "
                       "complete catalogue relation and lookup table; non-trivial = value with at least one deviation / plain family / catalogue")
    # thread-pair independence first (LINE events are switched off again before the enumeration)
    from checks import pair_ops  # noqa: PLC0415
    from mc import firstuse, pairs  # noqa: PLC0415

    # first use in a process before anything else touches the library (the workers must be pristine)
    fu_ops = [["fn", "SecsS01F03", 0], ["fn", "SecsS02F33", 0], ["lookup_shared", [[1, 1], [6, 12], [99, 1]]]]
    if ctx.thorough:  # one forked child per execution: too slow for the quick tier of this check
        firstuse.run_part(ctx, fu_ops, "C03", 1)
    ops = [["lookup_shared", [[1, 1], [6, 12], [99, 1]]], ["lookup_shared", [[14, 19], [1, 2]]]] + [["fn", n, p] for n, p in (("SecsS01F03", 0), ("SecsS05F01", 1), ("SecsS01F13", 0), ("SecsS02F33", 0))]
    # (the leaf codecs are line-traced by C01/C02's own pair parts; here the layers specific to functions: catalogue, SFDL reader, containers)
    pair_execs = pairs.run_part(ctx, ops if ctx.thorough else ops[:4], "C03", 1,
                                prefixes=("secsgem.secs.functions", "secsgem.secs.variables.functions", "secsgem.secs.variables.sfdl_tokenizer",
                                          "secsgem.secs.variables.dynamic", "secsgem.secs.variables.list_type", "secsgem.secs.variables.array",
                                          "secsgem.secs.data_items"))
    ctx.run_cases(check_case, cases(ctx), "c03", chunk=16)
    ctx.setcov("functions", len(function_classes()))


def replay(ctx, detail):
    if isinstance(detail.get("case"), dict) and detail["case"].get("part") == "first-use":
        from mc import firstuse  # noqa: PLC0415

        firstuse.replay(ctx, detail["case"], "C03")
        return
    if isinstance(detail.get("case"), dict) and detail["case"].get("part") == "pair":
        from mc import pairs  # noqa: PLC0415

        pairs.replay_pair(ctx, detail["case"], "C03")
        return
    res = check_case(detail["case"])
    ctx.evaluations += 1
    for sig, d in res.get("v", ()):
        ctx.violation(sig, d)
