"""C13 - status variables, equipment constants and alarms answer as a reference model predicts.

Shape H: history BFS over the state-changing events (S2F15 with in-range / boundary / out-of-range and
multi-constant lists, S5F3 enable/disable, set_alarm / clear_alarm, variable updates) on a real
GemEquipmentHandler; after every step the full set of queries (S1F3, S1F11, S2F13, S2F29, S5F5, S5F7 with
known / unknown / repeated / text ids) is sent and every reply is decoded by the reference codec and
compared with a plain-dict reference model.
"""
from __future__ import annotations

import struct

from checks import gem_harness as gh
from mc import hbfs, vrt
from ref import e5, e37

LEVEL = "model_checking"
BUDGET = {"quick": 420, "thorough": 3000}


def u(n):
    return ("U4", [n])


def ident(x):
    return ("A", x.encode()) if isinstance(x, str) else u(x)


def f4(x):
    return struct.unpack(">f", struct.pack(">f", x))[0]


# ---- fixture ------------------------------------------------------------------------------------------
EC_DEFS = {  # id: (type code, min, max, default, name, unit)
    20: ("I2", 0, 10, 5, "ec20", "mm"),
    "EC2": ("F4", -1.0, 1.0, 0.5, "ec2", ""),
    21: ("I2", -5, 0, -2, "ec21", ""),  # a limit that is zero (falsy) at the upper end; ec20 has it at the lower end
}
BUILTIN_EC = {1: ("I2", 10, 120, 10, "EstablishCommunicationsTimeout", "sec"), 2: ("I4", 0, 2, 1, "TimeFormat", "")}
ALARMS = {25: ("alarm25", "text25", 0x01), 26: ("alarm26", "text26", 0x02)}

EVENTS = {
    # S2F15 lists of (ecid, value)
    "ec20_m1": ("s2f15", [(20, -1)]), "ec20_0": ("s2f15", [(20, 0)]), "ec20_7": ("s2f15", [(20, 7)]), "ec20_10": ("s2f15", [(20, 10)]),
    "ec20_11": ("s2f15", [(20, 11)]),
    "ec2_m1": ("s2f15", [("EC2", -1.0)]), "ec2_025": ("s2f15", [("EC2", 0.25)]), "ec2_15": ("s2f15", [("EC2", 1.5)]),
    "ec20_3_ec2_1": ("s2f15", [(20, 3), ("EC2", 1.0)]),
    "ec20_4_then_bad": ("s2f15", [(20, 4), ("EC2", -1.5)]),
    "bad_then_ec2_0": ("s2f15", [(20, 11), ("EC2", 0.0)]),
    "ec20_2_unknown": ("s2f15", [(20, 2), (99, 1)]),
    "ec20_twice": ("s2f15", [(20, 1), (20, 9)]),
    "ec1_30": ("s2f15", [(1, 30)]),
    "ec21_1": ("s2f15", [(21, 1)]), "ec21_0": ("s2f15", [(21, 0)]), "ec21_m6": ("s2f15", [(21, -6)]), "ec21_1_ec20_3": ("s2f15", [(20, 3), (21, 1)]),
    "en25": ("s5f3", (True, 25)), "dis25": ("s5f3", (False, 25)), "en26": ("s5f3", (True, 26)), "en99": ("s5f3", (True, 99)),
    "set25": ("alarm", ("set", 25)), "clear25": ("alarm", ("clear", 25)), "set26": ("alarm", ("set", 26)), "clear26": ("alarm", ("clear", 26)),
    "sv_toggle": ("sv", None),
    "set25_noack": ("alarm", ("set", 25, "noack")), "clear25_noack": ("alarm", ("clear", 25, "noack")),
}
ALPHABET_QUICK = ["ec20_7", "en25", "set25", "set25_noack", "ec20_11", "ec20_4_then_bad", "clear25", "ec2_025", "sv_toggle", "dis25", "ec20_3_ec2_1",
                  "bad_then_ec2_0", "ec20_2_unknown", "set26", "ec20_0", "ec20_10", "ec20_m1", "ec2_15", "ec2_m1", "ec21_1", "ec21_0", "clear25_noack"]
ALPHABET_FULL = list(EVENTS)

ID_LISTS_SV = [[], [10], ["SV2"], [10, "SV2"], ["SV2", 10], [99], [10, 99], [99, 10], [10, 10], ["nope"], [1002], [1004, 1005]]
ID_LISTS_EC = [[], [20], ["EC2"], [20, "EC2"], ["EC2", 20], [99], [20, 99], [20, 20], [1, 2], [21, 20]]
ID_LISTS_AL = [[], [25], [26], [25, 26], [26, 25], [25, 25]]


class Ref:
    def __init__(self):
        self.sv = {10: ("U4", [5]), "SV2": ("A", b"abc")}
        self.sv_meta = {10: ("sv10", "u"), "SV2": ("sv2", "kg"), 1001: ("Clock", ""), 1002: ("ControlState", ""), 1003: ("EventsEnabled", ""),
                        1004: ("AlarmsEnabled", ""), 1005: ("AlarmsSet", "")}
        self.ec = {1: 10, 2: 1, 20: 5, "EC2": 0.5, 21: -2}
        self.al = {25: [False, False], 26: [False, False]}  # enabled, set

    def sv_order(self):
        return [1001, 1002, 1003, 1004, 1005, 10, "SV2"]

    def ec_order(self):
        return [1, 2, 20, "EC2", 21]

    def ec_def(self, i):
        return BUILTIN_EC.get(i) or EC_DEFS[i]


class Harness:
    def __init__(self, s):
        import secsgem.gem  # noqa: PLC0415
        import secsgem.secs.variables as V  # noqa: PLC0415,N812

        self.s = s
        self.ep = gh.GemEndpoint("equipment", handler_kwargs={"initial_control_state": "ONLINE"})
        self.h = h = self.ep.handler
        sv = secsgem.gem.StatusVariable(10, "sv10", "u", V.U4, False)
        sv.value = 5
        h.status_variables[10] = sv
        sv2 = secsgem.gem.StatusVariable("SV2", "sv2", "kg", V.String, False)
        sv2.value = "abc"
        h.status_variables["SV2"] = sv2
        h.equipment_constants[20] = secsgem.gem.EquipmentConstant(20, "ec20", 0, 10, 5, "mm", V.I2)
        h.equipment_constants["EC2"] = secsgem.gem.EquipmentConstant("EC2", "ec2", -1.0, 1.0, 0.5, "", V.F4, False)
        h.equipment_constants[21] = secsgem.gem.EquipmentConstant(21, "ec21", -5, 0, -2, "", V.I2)
        for alid, (name, text, code) in ALARMS.items():
            h.alarms[alid] = secsgem.gem.Alarm(alid, name, text, code, 100000 + alid, 200000 + alid)
        self.ref = Ref()
        self.viol = []
        self.last_event = None
        self.ok = self.ep.establish(s)

    def v(self, kind, **detail):
        self.viol.append((f"C13|{kind}|event={self.last_event}", detail))

    def request(self, stream, function, body):
        s, ep = self.s, self.ep
        sysb = ep.send_primary(stream, function, True, body)
        frames = []
        for _ in range(5):
            s.settle()
            new = ep.pump()
            frames += new
            if not ep.auto_reply([f for f in new if f["system"] != sysb]):
                break
        mine = [f for f in frames if f["stype"] == 0 and f["system"] == sysb]
        if len(mine) != 1 or (mine[0]["stream"], mine[0]["function"]) != (stream, function + 1):
            self.v(f"no-proper-reply|S{stream}F{function}|got={[e37.brief(f).split('#')[0] for f in mine]}", request=body.hex())
            return None, frames
        try:
            return gh.decode_body(mine[0]["body"]), frames
        except Exception as exc:  # noqa: BLE001
            self.v(f"reply-undecodable|S{stream}F{function}", body=mine[0]["body"].hex(), error=repr(exc))
            return None, frames

    # ------------------------------------------------------------------ state-changing events
    def apply(self, ev):
        kind, arg = EVENTS[ev]
        ref, h = self.ref, self.h
        self.last_event = ev
        if kind == "sv":
            cur = h.status_variables[10].value
            new = 7 if cur == 5 else 5
            h.status_variables[10].value = new
            ref.sv[10] = ("U4", [new])
        elif kind == "s2f15":
            items = []
            for ecid, val in arg:
                code = (ref.ec_def(ecid)[0] if ecid in ref.ec else "U1")
                items.append(("L", [ident(ecid), (code, [val])]))
            before = {k: h.equipment_constants[k].value for k in (20, "EC2")}
            before_ect = h.settings.establish_communication_timeout
            node, _ = self.request(2, 15, e5.enc(("L", items)))
            valid = all(ecid in ref.ec and ref.ec_def(ecid)[1] <= val <= ref.ec_def(ecid)[2] for ecid, val in arg)
            after = {k: h.equipment_constants[k].value for k in (20, "EC2")}
            if node is not None:
                ack = node[1][0] if node[0] == "B" and len(node[1]) == 1 else None
                if valid:
                    if ack != 0:
                        self.v(f"S2F15-valid-request-refused|ack={ack}", request=arg)
                    for ecid, val in arg:
                        ref.ec[ecid] = f4(val) if ref.ec_def(ecid)[0] == "F4" else val
                else:
                    if ack in (0, None):
                        self.v(f"S2F15-invalid-request-acknowledged|ack={ack}", request=arg)
                    if after != before or h.settings.establish_communication_timeout != before_ect:
                        self.v("S2F15-refused-request-applied-partially", request=arg, before=before, after=after)
            for k in (20, "EC2"):
                lo, hi = ref.ec_def(k)[1], ref.ec_def(k)[2]
                if not lo <= after[k] <= hi:
                    self.v(f"equipment-constant-outside-limits|{k}", value=after[k])
                if valid and after[k] != ref.ec[k]:
                    self.v(f"S2F15-accepted-value-not-stored|{k}", got=after[k], want=ref.ec[k])
                if not valid:
                    ref.ec[k] = after[k] if lo <= after[k] <= hi else ref.ec[k]
        elif kind == "s5f3":
            enable, alid = arg
            body = e5.enc(("L", [("B", bytes([0x80 if enable else 0x00])), u(alid)]))
            node, _ = self.request(5, 3, body)
            if node is not None:
                ack = node[1][0] if node[0] == "B" and len(node[1]) == 1 else None
                if alid in ref.al:
                    if ack != 0:
                        self.v(f"S5F3-known-alarm-refused|ack={ack}")
                    ref.al[alid][0] = enable
                elif ack == 0:
                    self.v("S5F3-unknown-alarm-acknowledged")
        elif kind == "alarm":
            op, alid = arg[0], arg[1]
            noack = len(arg) > 2
            fn = h.set_alarm if op == "set" else h.clear_alarm
            holder = {"done": False, "error": None}

            def run():
                try:
                    fn(alid)
                except Exception as exc:  # noqa: BLE001
                    holder["error"] = repr(exc)
                holder["done"] = True

            vrt.Thread(target=run, name="alarm-op").start()
            frames = []
            for _ in range(6):
                self.s.settle()
                new = self.ep.pump()
                frames += new
                if noack:
                    # the host never answers S5F1: the call must still finish (reply timeout) with the alarm state updated
                    new = [f for f in new if (f["stream"], f["function"]) != (5, 1)]
                if not self.ep.auto_reply(new):
                    break
            if noack:
                for _ in range(4):
                    if holder["done"]:
                        break
                    self.s.advance()
                    frames += self.ep.pump()
            if not holder["done"] or holder["error"]:
                self.v(f"alarm-call-failed|{op}", holder=holder)
            reports = [f for f in frames if f["stype"] == 0 and (f["stream"], f["function"]) == (5, 1)]
            enabled, is_set = ref.al[alid]
            change = (op == "set") != is_set
            want_n = 1 if (change and enabled) else 0
            if len(reports) != want_n:
                self.v(f"S5F1-count|got={len(reports)}|want={want_n}|{op}|enabled={enabled}|was_set={is_set}")
            elif want_n:
                try:
                    node = gh.decode_body(reports[0]["body"])
                    alcd, rid, altx = node[1][0][1], node[1][1][1][0], node[1][2][1]
                    code = ALARMS[alid][2] | (0x80 if op == "set" else 0)
                    if alcd != bytes([code]) or rid != alid or altx != ALARMS[alid][1].encode():
                        self.v(f"S5F1-content|{op}", got=repr(node), want=[code, alid, ALARMS[alid][1]])
                except Exception as exc:  # noqa: BLE001
                    self.v(f"S5F1-malformed|{op}", error=repr(exc))
            ref.al[alid][1] = op == "set"
        self.probe()
        return True

    # ------------------------------------------------------------------ queries after every step
    def probe(self):
        ref = self.ref
        # S1F3 / S1F11
        for ids in ID_LISTS_SV:
            node, _ = self.request(1, 3, e5.enc(("L", [ident(i) for i in ids])))
            order = ids or ref.sv_order()
            if node is not None:
                if node[0] != "L" or len(node[1]) != len(order):
                    self.v(f"S1F4-item-count|ids={ids}", got=repr(node)[:200])
                else:
                    for i, item in zip(order, node[1]):
                        want = self.sv_value(i)
                        if want == "skip":
                            continue
                        if want is None:
                            if _item_len(item) != 0:
                                self.v(f"S1F4-unknown-id-not-empty|ids={ids}", got=repr(item))
                        elif want[0] == "LIST":
                            # a list-valued status variable: a list of ids, compared by value (item widths are the library's choice)
                            try:
                                got_ids = [x[1][0] for x in item[1]] if item[0] == "L" else None
                            except Exception:  # noqa: BLE001
                                got_ids = None
                            if got_ids != want[1]:
                                self.v(f"S1F4-list-value|id={i}", got=repr(item)[:200], want=want[1])
                        elif item != want:
                            self.v(f"S1F4-value|id={i}|ids={ids}", got=repr(item), want=repr(want))
            node, _ = self.request(1, 11, e5.enc(("L", [ident(i) for i in ids])))
            if node is not None:
                if node[0] != "L" or len(node[1]) != len(order):
                    self.v(f"S1F12-item-count|ids={ids}", got=repr(node)[:200])
                else:
                    for i, item in zip(order, node[1]):
                        name, unit = ref.sv_meta.get(i, ("", ""))
                        want = ("L", [ident(i), ("A", name.encode()), ("A", unit.encode())])
                        if not (item[0] == "L" and len(item[1]) == 3 and _id_eq(item[1][0], i) and tuple(item[1][1:]) == tuple(want[1][1:])):
                            self.v(f"S1F12-entry|id={i}|ids={ids}", got=repr(item), want=repr(want))
        # an id item holding two numbers is not the id of its first number: <U4 10 99> names no status variable, <U4 20 7> no constant
        for stream, function, first in ((1, 3, 10), (2, 13, 20)):
            node, _ = self.request(stream, function, e5.enc(("L", [("U4", [first, 99])])))
            if node is not None:
                if node[0] != "L" or len(node[1]) != 1:
                    self.v(f"S{stream}F{function + 1}-item-count|two-valued-id", got=repr(node)[:200])
                elif _item_len(node[1][0]) != 0:
                    self.v(f"S{stream}F{function + 1}-unknown-id-not-empty|two-valued-id", got=repr(node[1][0]))
        # S2F13 / S2F29
        for ids in ID_LISTS_EC:
            node, _ = self.request(2, 13, e5.enc(("L", [ident(i) for i in ids])))
            order = ids or ref.ec_order()
            if node is not None:
                if node[0] != "L" or len(node[1]) != len(order):
                    self.v(f"S2F14-item-count|ids={ids}", got=repr(node)[:200])
                else:
                    for i, item in zip(order, node[1]):
                        if i not in ref.ec:
                            if _item_len(item) != 0:
                                self.v(f"S2F14-unknown-id-not-empty|ids={ids}", got=repr(item))
                        else:
                            code = ref.ec_def(i)[0]
                            if item[0] != code or not e5.same_value(code, [ref.ec[i]], list(item[1])):
                                self.v(f"S2F14-value|id={i}|ids={ids}", got=repr(item), want=[code, ref.ec[i]])
            node, _ = self.request(2, 29, e5.enc(("L", [ident(i) for i in ids])))
            if node is not None:
                if node[0] != "L" or len(node[1]) != len(order):
                    self.v(f"S2F30-item-count|ids={ids}", got=repr(node)[:200])
                else:
                    for i, item in zip(order, node[1]):
                        ok = item[0] == "L" and len(item[1]) == 6 and _id_eq(item[1][0], i)
                        if ok and i in ref.ec:
                            code, lo, hi, dflt, name, unit = ref.ec_def(i)
                            ok = (item[1][1] == ("A", name.encode()) and _num(item[1][2]) == lo and _num(item[1][3]) == hi
                                  and _num(item[1][4]) == dflt and item[1][5] == ("A", unit.encode()))
                        elif ok:
                            ok = all(_item_len(x) == 0 for x in item[1][1:])
                        if not ok:
                            self.v(f"S2F30-entry|id={i}|ids={ids}", got=repr(item))
        # S5F5 / S5F7
        for ids in ID_LISTS_AL:
            node, _ = self.request(5, 5, e5.enc(("L", [u(i) for i in ids])))
            order = ids or [25, 26]
            if node is not None:
                self.check_alarm_list(node, order, f"S5F6|ids={ids}")
        node, _ = self.request(5, 7, b"")
        if node is not None:
            self.check_alarm_list(node, [a for a in (25, 26) if ref.al[a][0]], "S5F8")

    def check_alarm_list(self, node, order, what):
        ref = self.ref
        if node[0] != "L" or len(node[1]) != len(order):
            self.v(f"{what}|item-count|got={len(node[1]) if node[0] == 'L' else node[0]}|want={len(order)}")
            return
        for alid, item in zip(order, node[1]):
            code = ALARMS[alid][2] | (0x80 if ref.al[alid][1] else 0)
            want = ("L", [("B", bytes([code])), None, ("A", ALARMS[alid][1].encode())])
            ok = item[0] == "L" and len(item[1]) == 3 and item[1][0] == want[1][0] and item[1][2] == want[1][2] and list(item[1][1][1]) == [alid]
            if not ok:
                self.v(f"{what}|entry|alid={alid}|set={ref.al[alid][1]}", got=repr(item))

    def sv_value(self, i):
        ref = self.ref
        if i == 1001:
            return "skip"
        if i == 1002:
            return ("B", bytes([5]))  # ONLINE_REMOTE in this fixture
        if i == 1003:
            return ("LIST", [])  # no collection event is enabled in this fixture
        if i == 1004:
            return ("LIST", [a for a in (25, 26) if ref.al[a][0]])
        if i == 1005:
            return ("LIST", [a for a in (25, 26) if ref.al[a][1]])
        return ref.sv.get(i)

    def canon(self):
        h = self.h
        # every attribute of the alarm / constant objects (not a hand-picked subset: hidden per-object state must keep states apart)
        def attrs(obj):
            return sorted((n, repr(v)) for n, v in vars(obj).items() if isinstance(v, (bool, int, float, str, bytes, type(None), list, tuple)))

        return {"ec": {str(k): attrs(h.equipment_constants[k]) for k in (20, "EC2", 21)}, "ect": h.settings.establish_communication_timeout,
                "al": {str(k): attrs(a) for k, a in h.alarms.items()}, "sv": h.status_variables[10].value, "comm": self.ep.comm()}


def _id_eq(item, ident_value):
    """An id is compared by value; the integer width / text type the library picks is not constrained."""
    if isinstance(ident_value, str):
        return item[0] == "A" and item[1] == ident_value.encode()
    return item[0] in e5.INT_W and list(item[1]) == [ident_value]


def _item_len(item):
    return len(item[1])


def _num(item):
    return item[1][0] if len(item[1]) == 1 else None


def run_history(history):
    out = {}

    def driver(s):
        hx = Harness(s)
        s.hx = hx
        if not hx.ok:
            out["harness"] = "could not establish communication"
            return
        hx.last_event = "initial"
        if not history:
            hx.probe()
        for ev in history:
            hx.apply(ev)
        out["canon"] = hx.canon()

    sched = vrt.run(driver, max_steps=2_000_000, max_time=1e7, line_points=False)
    hx = getattr(sched, "hx", None)
    if sched.harness_failure or sched.driver_exception:
        out["harness"] = (sched.harness_failure or sched.driver_exception)[-1500:]
        return out
    out["v"] = list(hx.viol) if hx else []
    if sched.outcome != "done":
        out["v"].append((f"C13|execution-{sched.outcome}|event={hx.last_event if hx else None}", {"info": sched.deadlock_info}))
        out["canon"] = {"stuck": sched.outcome, "n": len(history)}
        out["terminal"] = True
    for _sig, d in out["v"]:
        d.setdefault("case", {})
    return out


# ------------------------------------------------------------------------------------------ a host request against an alarm change
REGION = [
    "secsgem.gem.alarm_capability:AlarmCapability.*",
]
CONC = [("en25", True, "set"), ("en25", True, "clear"), ("dis25", True, "set"), ("en25", False, "set"), ("en26", True, "set")]


def run_conc(devs, budgets, request="en25", enabled_before=True, op="set"):
    """S5F3 for an alarm (dispatcher thread) against set_alarm / clear_alarm of alarm 25 (application thread).  If alarm 25 is enabled
    before and after the request, its change must be reported with exactly one S5F1; in any case at most one; the alarm ends set / cleared."""
    box = {}

    def driver(s):
        s.frozen = True
        s.line_points = False
        hx = Harness(s)
        if not hx.ok:
            box["harness"] = "could not establish communication"
            return
        if enabled_before:
            hx.apply("en25")
        if op == "clear":
            hx.apply("set25")
        if hx.viol:
            # what the sequential oracle sees during the set-up is a violation (the history part reports it too), not an error of the harness
            box["setup_viol"] = list(hx.viol)
            return
        ep, h = hx.ep, hx.h
        enable, alid = EVENTS[request][1]
        body = e5.enc(("L", [("B", bytes([0x80 if enable else 0x00])), u(alid)]))
        done = {}

        def alarm_op():
            (h.set_alarm if op == "set" else h.clear_alarm)(25)
            done["ok"] = True

        s.frozen = False
        s.line_points = True
        sysb = ep.send_primary(5, 3, True, body)
        t = vrt.Thread(target=alarm_op, name="alarm-op")
        t.start()
        frames = []
        for _ in range(6):
            s.settle()
            new = ep.pump()
            frames += new
            if not ep.auto_reply([f for f in new if f["system"] != sysb]):
                break
        s.line_points = False
        s.frozen = True
        box["done"] = bool(done)
        box["s5f1"] = [f["body"].hex() for f in frames if f["stype"] == 0 and (f["stream"], f["function"]) == (5, 1)]
        box["ack"] = [f["body"].hex() for f in frames if f["stype"] == 0 and f["system"] == sysb]
        box["after"] = (bool(h.alarms[25].enabled), bool(h.alarms[25].set))
        h.disable()

    sched = vrt.run(driver, devs, budgets, max_steps=500000, max_time=1e6, line_points=True)
    res = {"trace": sched.trace, "v": []}
    case = {"part": "conc", "request": request, "enabled_before": enabled_before, "op": op}
    if box.get("setup_viol") and not (sched.harness_failure or sched.driver_exception):
        for sig, d in box["setup_viol"]:
            d = dict(d)
            d["case"] = case
            res["v"].append((sig, d))
        res["obs"] = "violation-in-set-up"
        return res
    if sched.harness_failure or sched.driver_exception or box.get("harness"):
        res["harness"] = (sched.harness_failure or sched.driver_exception or box.get("harness"))[-1200:]
        res["obs"] = None
        return res
    if sched.outcome != "done":
        res["v"].append((f"C13|concurrent|execution-{sched.outcome}|{request}+{op}", {"case": case, "info": sched.deadlock_info}))
        res["obs"] = sched.outcome
        return res
    res["obs"] = {"s5f1": len(box["s5f1"]), "after": box["after"]}
    enable, alid = EVENTS[request][1]
    enabled_after = enable if alid == 25 else enabled_before
    tag = f"{request}+{op}|enabled-before={enabled_before}"
    if not box["done"]:
        res["v"].append((f"C13|concurrent|alarm-call-did-not-return|{tag}", {"case": case}))
    if box["after"] != (enabled_after, op == "set"):
        res["v"].append((f"C13|concurrent|alarm-state-after|got={box['after']}|{tag}", {"case": case}))
    if len(box["s5f1"]) > 1:
        res["v"].append((f"C13|concurrent|S5F1-count={len(box['s5f1'])}|{tag}", {"case": case}))
    if enabled_before and enabled_after and len(box["s5f1"]) != 1:
        res["v"].append((f"C13|concurrent|change-of-an-enabled-alarm-not-reported-once|S5F1-count={len(box['s5f1'])}|{tag}", {"case": case}))
    if not enabled_before and not enabled_after and box["s5f1"]:
        res["v"].append((f"C13|concurrent|change-of-a-disabled-alarm-reported|{tag}", {"case": case}))
    if len(box["ack"]) != 1:
        res["v"].append((f"C13|concurrent|S5F3-answered-{len(box['ack'])}-times|{tag}", {"case": case}))
    return res


def run(ctx):
    # S part first (line tracing before any pool is forked)
    from checks import hsms_harness as hh  # noqa: PLC0415
    from mc import explore  # noqa: PLC0415

    missing = hh.trace_region(REGION)
    if missing:
        ctx.note(f"not line-traced (not found): {missing}")
    kc = 3 if ctx.thorough else 2
    cparts = []
    for request, enabled_before, op in CONC:
        st = explore.explore(ctx, run_conc, {"sched": kc}, f"c13-conc-{request}-{enabled_before}-{op}",
                             opts={"request": request, "enabled_before": enabled_before, "op": op}, chunk=8)
        cparts.append({"request": request, "enabled_before": enabled_before, "op": op, "executions": st["executions"],
                       "outcomes": st["distinct_outcomes"], "levels_completed": st["levels_completed"]})
        if st["levels_completed"] < kc:
            ctx.exhaustive = False
    ctx.setcov("concurrent_explorations", cparts)
    ctx.setcov("delay_bound", kc)
    ctx.assumptions += [
        "concurrent part: S5F3 (dispatcher thread) against set_alarm / clear_alarm (application thread), every schedule with <= K delays at line "
        "granularity of the alarm capability",
        "reference model = plain dicts in checks/c13.py; replies are decoded with the independent codec",
        "the clock and the list-valued built-in status variables (1001, 1003-1005) are excluded from value comparison; "
        "unknown ALIDs in S5F5 are not in the alphabet (the statement does not say how they are answered)",
        "an 'empty item' for an unknown id is any zero-length item",
        "default schedule; S5F1/S6F11 are acknowledged by the harness",
    ]
    if ctx.thorough:
        alphabet, d0, d1 = ALPHABET_FULL, 2, 5
    else:
        alphabet, d0, d1 = ALPHABET_QUICK, 2, 4
    st = hbfs.search(ctx, run_history, alphabet, "c13", d0, d1, chunk=4)
    ctx.setcov("states", st["states"])
    ctx.setcov("transitions", st["transitions"])
    ctx.setcov("traces_validated_against_impl", st["transitions"])
    ctx.setcov("queries_per_step", 2 * len(ID_LISTS_SV) + 2 * len(ID_LISTS_EC) + len(ID_LISTS_AL) + 1)
    ctx.setcov("search", st)
    ctx.setcov("alphabet", alphabet)
    ctx.setcov("exhaustive_depth", d0)
    ctx.setcov("max_depth", d1)


def replay(ctx, detail):
    if isinstance(detail.get("case"), dict) and detail["case"].get("part") == "conc":
        from checks import hsms_harness as hh  # noqa: PLC0415

        case = detail["case"]
        hh.trace_region(REGION)
        devs = {int(k): v for k, v in case.get("devs", {}).items()}
        r = run_conc(devs, case.get("budgets", {}), request=case["request"], enabled_before=case["enabled_before"], op=case["op"])
        ctx.evaluations += 1
        print("replayed:", r.get("obs"))
        for sig, d in r["v"]:
            ctx.violation(sig, d)
        return
    case = detail["case"]
    r = run_history(case["history"])
    ctx.evaluations += 1
    print("replayed", case["history"], "->", r.get("canon"))
    for sig, d in r.get("v", ()):
        ctx.violation(sig, d)
