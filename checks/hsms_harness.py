"""Shared pieces for drivers of the real HsmsProtocol over the in-memory LoopConnection."""
from __future__ import annotations

from mc import loader, vrt

loader.install_shims()
from mc import env  # noqa: E402
from ref import e37  # noqa: E402

import secsgem.hsms  # noqa: E402


class Endpoint:
    """A real HsmsProtocol (or handler on top of one) plus the peer's view of its wire."""

    def __init__(self, active=False, protocol=None, settings=None, **kw):
        self.settings = settings or env.hsms_settings(active=active, **kw)
        self.protocol = protocol or secsgem.hsms.HsmsProtocol(self.settings)
        self.rxbuf = b""
        self.frames = []  # every frame the endpoint ever wrote: dict + "t" + "gen"
        self.seen = 0
        self.events = []
        self._sent_seen = 0

    @property
    def conn(self):
        # created lazily by Protocol._connection
        self.protocol._connection  # noqa: B018
        return self.settings.loop

    def pump(self):
        """Parse whatever the endpoint wrote since the last call into frames (reference parser)."""
        sent = self.conn.sent
        new = []
        while self._sent_seen < len(sent):
            t, data, gen = sent[self._sent_seen]
            self._sent_seen += 1
            self.rxbuf += data
            frs, self.rxbuf = e37.parse(self.rxbuf)
            for f in frs:
                f["t"] = t
                f["gen"] = gen
                new.append(f)
        self.frames.extend(new)
        return new

    def reset_wire(self):
        self.rxbuf = b""

    def state(self):
        return self.protocol.connection_state.current.name


def select_passive(s, ep, system=0x7001):
    """Bring a passive endpoint to SELECTED: connect, Select.req, settle."""
    ep.protocol.enable()
    ep.conn.peer_connect()
    s.settle()
    ep.conn.peer_send(e37.control(e37.SELECT_REQ, system))
    s.settle()
    ep.pump()
    return ep.state() == "CONNECTED_SELECTED"


def select_active(s, ep):
    """Bring an active endpoint to SELECTED: connect, answer its Select.req."""
    ep.protocol.enable()
    ep.conn.peer_connect()
    s.settle()
    for f in ep.pump():
        if f["stype"] == e37.SELECT_REQ:
            ep.conn.peer_send(e37.control(e37.SELECT_RSP, f["system"]))
    s.settle()
    ep.pump()
    return ep.state() == "CONNECTED_SELECTED"


def trace_region(names):
    fns, missing = vrt.resolve(names)
    vrt.trace_functions(fns)
    return missing
