"""C16 - SECS-I blocks split, checksum and reassemble any message body without loss.

Shape E: body lengths at every 244-byte boundary x header boundary sets against the independent E4 codec
(ref/e4.py); every interleaving (merge) of the block sequences of 2-3 messages fed to the reassembly of a
real SecsIProtocol; every single-byte corruption (every position x every other byte value) of blocks of
data length 0, 1 and 244.
"""
from __future__ import annotations

import itertools

from mc import gen, loader
from ref import e4

loader.load()
import secsgem.common  # noqa: E402
import secsgem.secsi  # noqa: E402
import secsgem.secsi.message as _sm  # noqa: E402

LEVEL = "exploration"
BUDGET = {"quick": 300, "thorough": 2400}


def body_of(n, salt=0):
    return bytes(((i * 7 + salt) & 0xFF) for i in range(n))


def make_message(hd, body):
    h = secsgem.secsi.SecsIHeader(hd["system"], hd["device_id"], hd["stream"], hd["function"], 0, bool(hd["r"]), bool(hd["w"]), True)
    return _sm.SecsIMessage(h, body)


def lenclass(n):
    if n == 0:
        return "0"
    if n % 244 == 0:
        return "k*244"
    if n % 244 == 1:
        return "k*244+1"
    if n % 244 == 243:
        return "k*244-1"
    return "other"


def check_split(case):
    hd = case["hd"]
    n = case["n"]
    body = body_of(n, case.get("salt", 0))
    want = e4.split(hd["device_id"], hd["r"], hd["w"], hd["stream"], hd["function"], hd["system"], body)
    out = []
    sig = f"len={lenclass(n)}"
    try:
        msg = make_message(hd, body)
        blocks = msg.blocks
        enc = [bytes(b.encode()) for b in blocks]
    except Exception as exc:  # noqa: BLE001
        return {"v": [(f"C16|split-or-encode-raises|{sig}", {"case": case, "error": repr(exc)})], "nt": True}
    if len(enc) != len(want):
        out.append((f"C16|block-count|{sig}", {"case": case, "got": len(enc), "want": len(want)}))
    else:
        for i, (g, w) in enumerate(zip(enc, want)):
            if g != w:
                pos = "first" if i == 0 else ("last" if i == len(want) - 1 else "middle")
                fld = _diff_field(g, w)
                out.append((f"C16|block-bytes-differ|{sig}|{pos}|{fld}", {"case": case, "index": i, "got": g[:16].hex(), "want": w[:16].hex(),
                                                                          "got_len": len(g), "want_len": len(w)}))
                break
    # decode(encode(b)) == b, field by field
    for i, (b, raw) in enumerate(zip(blocks, enc)):
        try:
            d = _sm.SecsIBlock.decode(raw)
        except Exception as exc:  # noqa: BLE001
            out.append((f"C16|decode-own-block-raises|{sig}", {"case": case, "index": i, "error": repr(exc)}))
            break
        ref = e4.parse_block(raw)
        if d is None or ref is None:
            out.append((f"C16|own-block-rejected|{sig}", {"case": case, "index": i}))
            break
        h = d.header
        got = {"device_id": h.device_id, "r": h.from_equipment, "w": h.require_response, "stream": h.stream, "function": h.function,
               "e": h.last_block, "block": h.block, "system": h.system, "data": bytes(d.data)}
        if got != ref:
            diff = sorted(k for k in ref if got[k] != ref[k])
            out.append((f"C16|decoded-fields-differ|{sig}|{'+'.join(diff)}", {"case": case, "index": i, "got": {k: got[k] for k in diff if k != 'data'},
                                                                             "want": {k: ref[k] for k in diff if k != 'data'}}))
            break
        if i > 2 and i < len(blocks) - 3:
            continue
    return {"v": out, "nt": n % 244 in (0, 1, 243) or n == 0}


def _diff_field(g, w):
    if len(g) != len(w):
        return "length"
    for i, (a, b) in enumerate(zip(g, w)):
        if a != b:
            if i == 0:
                return "length-byte"
            if i <= 2:
                return "device/R"
            if i == 3:
                return "stream/W"
            if i == 4:
                return "function"
            if i <= 6:
                return "block/E"
            if i <= 10:
                return "system"
            if i >= len(g) - 2:
                return "checksum"
            return "data"
    return "none"


class _Settings(secsgem.secsi.SecsISettings):
    pass


def check_reassembly(case):
    """Blocks of several messages interleaved in every order (each message's own blocks stay in order)."""
    counts = case["counts"]
    msgs = []
    for k, nblocks in enumerate(counts):
        hd = {"system": 0x100 + (0 if case.get("objects") else k), "device_id": 5 + k, "stream": 1 + k, "function": 2 * k + 1, "r": k % 2, "w": (k + 1) % 2}
        n = 244 * (nblocks - 1) + (17 + k if nblocks else 0)
        body = body_of(n, k * 31)
        raws = e4.split(hd["device_id"], hd["r"], hd["w"], hd["stream"], hd["function"], hd["system"], body)
        msgs.append((hd, body, raws))
    order = case["order"]
    settings = secsgem.secsi.SecsISettings(port="VIRT", device_type=secsgem.common.DeviceType.HOST)
    proto = secsgem.secsi.SecsIProtocol(settings)
    if case.get("objects"):
        return _reassembly_objects(case, msgs)
    got = []
    proto.events.message_received += lambda data: got.append(data["message"])
    idx = [0] * len(counts)
    out = []
    if not callable(getattr(proto, "_dispatch_block", None)):
        return {"v": [], "nt": False, "cnt": {"reassembly_seam_missing": 1}}
    try:
        for k in order:
            raw = msgs[k][2][idx[k]]
            idx[k] += 1
            block = _sm.SecsIBlock.decode(raw)
            proto._dispatch_block(proto, block)
    except Exception as exc:  # noqa: BLE001
        return {"v": [("C16|reassembly-raises", {"case": case, "error": repr(exc)})], "nt": True}
    # every message exactly once with the original header (modulo block number) and body
    for k, (hd, body, _raws) in enumerate(msgs):
        mine = [m for m in got if m.header.system == hd["system"]]
        if len(mine) != 1:
            out.append((f"C16|reassembly-delivery-count={len(mine)}", {"case": case, "message": k}))
            continue
        m = mine[0]
        h = m.header
        fields = {"device_id": h.device_id, "r": h.from_equipment, "w": h.require_response, "stream": h.stream, "function": h.function}
        want = {"device_id": hd["device_id"], "r": bool(hd["r"]), "w": bool(hd["w"]), "stream": hd["stream"], "function": hd["function"]}
        if fields != want:
            out.append(("C16|reassembly-header-differs", {"case": case, "message": k, "got": fields, "want": want}))
        if bytes(m.data) != body:
            out.append(("C16|reassembly-body-differs", {"case": case, "message": k, "got_len": len(m.data), "want_len": len(body)}))
    if len(got) != len(msgs):
        out.append((f"C16|reassembly-total-deliveries={len(got)}|want={len(msgs)}", {"case": case}))
    incomplete = getattr(proto, "_incomplete_messages", None)
    if incomplete:
        out.append(("C16|reassembly-leaves-incomplete-messages", {"case": case, "n": len(incomplete)}))
    return {"v": out, "nt": True}


def _reassembly_objects(case, msgs):
    """Message k is received by protocol object k (one object per message, e.g. two serial ports); all messages carry the SAME system
    bytes and their blocks arrive interleaved: every object delivers exactly its own message."""
    out = []
    protos, gots = [], []
    for k in range(len(msgs)):
        st = secsgem.secsi.SecsISettings(port=f"VIRT{k}", device_type=secsgem.common.DeviceType.HOST)
        p = secsgem.secsi.SecsIProtocol(st)
        g = []
        p.events.message_received += lambda data, g=g: g.append(data["message"])
        protos.append(p)
        gots.append(g)
    idx = [0] * len(msgs)
    try:
        for k in case["order"]:
            raw = msgs[k][2][idx[k]]
            idx[k] += 1
            protos[k]._dispatch_block(protos[k], _sm.SecsIBlock.decode(raw))
    except Exception as exc:  # noqa: BLE001
        return {"v": [("C16|reassembly-objects-raises", {"case": case, "error": repr(exc)})], "nt": True}
    for k, (hd, body, _raws) in enumerate(msgs):
        g = gots[k]
        if len(g) != 1:
            out.append((f"C16|reassembly-objects|delivery-count={len(g)}", {"case": case, "object": k}))
        elif bytes(g[0].data) != body or g[0].header.stream != hd["stream"]:
            out.append(("C16|reassembly-objects|object-delivers-blocks-of-another-object", {"case": case, "object": k, "got_len": len(g[0].data),
                                                                                         "want_len": len(body), "stream": g[0].header.stream}))
    return {"v": out, "nt": True}


def check_corruption(case):
    """Every other byte value at one position of an encoded block: never accepted as a valid block."""
    hd = case["hd"]
    body = body_of(case["n"], 3)
    raw = e4.split(hd["device_id"], hd["r"], hd["w"], hd["stream"], hd["function"], hd["system"], body)[0]
    pos = case["pos"]
    out = []
    n_acc = 0
    for v in range(256):
        if v == raw[pos]:
            continue
        bad = raw[:pos] + bytes([v]) + raw[pos + 1:]
        try:
            d = _sm.SecsIBlock.decode(bad)
        except Exception:  # noqa: BLE001
            continue
        if d is not None:
            n_acc += 1
            region = "length" if pos == 0 else ("header" if pos <= 10 else ("checksum" if pos >= len(raw) - 2 else "data"))
            out.append((f"C16|corrupted-block-accepted|{region}", {"case": case, "value": v, "original": raw[pos]}))
            break
    return {"v": out, "nt": True, "cnt": {"corruptions": 255}}


def check_checksum_field(case):
    """Every other 16-bit value in the checksum field of an encoded block: never accepted."""
    hd = case["hd"]
    body = body_of(case["n"], 3)
    raw = e4.split(hd["device_id"], hd["r"], hd["w"], hd["stream"], hd["function"], hd["system"], body)[0]
    orig = int.from_bytes(raw[-2:], "big")
    out = []
    for v in range(65536):
        if v == orig:
            continue
        try:
            d = _sm.SecsIBlock.decode(raw[:-2] + v.to_bytes(2, "big"))
        except Exception:  # noqa: BLE001
            continue
        if d is not None:
            out.append(("C16|corrupted-block-accepted|checksum-field", {"case": case, "value": v, "original": orig}))
            break
    return {"v": out, "nt": True, "cnt": {"corruptions": 65535}}


def merges(counts):
    """All interleavings of sequences with the given lengths (as lists of sequence indices)."""
    seq = [k for k, c in enumerate(counts) for _ in range(c)]
    seen = set()
    for p in itertools.permutations(seq):
        if p not in seen:
            seen.add(p)
            yield list(p)


def check_case(case):
    return {"split": check_split, "reasm": check_reassembly, "corrupt": check_corruption, "cksum": check_checksum_field}[case["kind"]](case)


def cases(ctx):
    thorough = ctx.thorough
    lengths = [0, 1, 2, 243, 244, 245, 487, 488, 489, 732, 244 * 255, 244 * 255 + 1]
    base = {"device_id": 0x1234, "r": 1, "w": 1, "stream": 0x55, "function": 0xAA, "system": 0x01020304}
    heads = [base]
    for field, vals in (("device_id", [0, 1, 0x7FFF]), ("r", [0]), ("w", [0]), ("stream", [0, 1, 127]), ("function", [0, 1, 255]),
                        ("system", [0, 1, 2 ** 31, 2 ** 32 - 1])):
        for v in vals:
            heads.append(dict(base, **{field: v}))
    # two-field deviations (thorough)
    if thorough:
        for (f1, v1), (f2, v2) in itertools.combinations([("device_id", 0x7FFF), ("r", 0), ("w", 0), ("stream", 127), ("function", 255),
                                                          ("system", 2 ** 32 - 1)], 2):
            heads.append(dict(base, **{f1: v1, f2: v2}))
    for n in lengths:
        for hd in (heads if n <= 732 else heads[:3]):
            yield {"kind": "split", "hd": hd, "n": n}
    if thorough:
        for n in (244 * 32767 - 1, 244 * 32767):
            yield {"kind": "split", "hd": base, "n": n}
    # reassembly: every merge
    for counts in ([3, 2], [2, 2, 2], [3, 2, 1]) + (([4, 3], [3, 3, 2]) if thorough else ()):
        for order in merges(counts):
            yield {"kind": "reasm", "counts": counts, "order": order}
    # the same interleavings with one protocol object per message and equal system bytes
    for counts in ([3, 2], [2, 2, 2]):
        for order in merges(counts):
            yield {"kind": "reasm", "counts": counts, "order": order, "objects": True}
    # corruption: every position x every other value
    # (base header: checksum >= 0x100; small header: checksum < 0x100, so a one-byte change can zero the field)
    small = {"device_id": 0, "r": 0, "w": 0, "stream": 1, "function": 2, "system": 3}
    for hd in (base, small):
        for n in (0, 1, 244):
            length = 13 + n
            for pos in range(length):
                yield {"kind": "corrupt", "hd": hd, "n": n, "pos": pos}
    # every other value of the whole 16-bit checksum field
    for hd in (base, small, dict(small, system=0), dict(base, system=2 ** 32 - 1)):
        for n in (0, 1) + ((244,) if thorough else ()):
            yield {"kind": "cksum", "hd": hd, "n": n}


def run(ctx):
    ctx.assumptions += [
        "reference block codec ref/e4.py written from the E4 block layout (10-byte header bit positions, 16-bit additive checksum)",
        "reassembly is driven through Protocol._dispatch_block of a real SecsIProtocol (the seam the receiver thread uses); "
        "each message's own blocks arrive in order (E4 never reorders blocks of one message)",
        "messages beyond 32 767 blocks are outside the statement and not checked",
    ]
    ctx.setcov("rule", "body lengths {0,1,2,243..245,487..489,732,255 blocks(+1), 32767 blocks thorough} x header fields at 1 (2 thorough) "
                       "deviations from a base header; all merges of block sequences (3,2),(2,2,2),(3,2,1); every position x 255 other "
                       "values of blocks with 0/1/244 data bytes (header with checksum >= 0x100 and one with checksum < 0x100); every other "
                       "16-bit value of the checksum field; non-trivial = length on a 244 boundary, any merge, any corruption position")
    ctx.run_cases(check_case, cases(ctx), "c16", chunk=16)


def replay(ctx, detail):
    res = check_case(detail["case"])
    ctx.evaluations += 1
    for sig, d in res.get("v", ()):
        ctx.violation(sig, d)
