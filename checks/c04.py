"""C04 - HSMS frames are bit-exact and reassembled independently of TCP segmentation.

(a) Shape E: header field boundary sets x all STypes x body lengths against the independent frame codec.
(b) Shape S/H: sequences of 1-3 frames fed to a real SELECTED HsmsProtocol for every set of <= C cut positions
    of the concatenated byte stream, the all-single-bytes partition and (for one 14-byte frame) all 2^13
    partitions; segments arrive one after the other (the receiver blocks inside a partial frame) and, in a
    second mode, all at once under every schedule with <= K delays at line granularity.
    Oracle: deliveries and control replies equal those of the uncut stream - same messages, same order.
(c) a real ByteQueue alone, one producer and one consumer, every schedule with <= K delays at bytecode-instruction granularity.
(d) outbound: the bytes given to Connection.send_data for every frame size around multiples of the outbound packet size.
"""
from __future__ import annotations

import itertools

from checks import hsms_harness as hh
from mc import explore, gen, vrt
from ref import e5, e37

import secsgem.hsms

LEVEL = "model_checking"
BUDGET = {"quick": 420, "thorough": 3000}

REGION = [
    "secsgem.hsms.protocol:HsmsProtocol._process_received_data",
    "secsgem.common.protocol:Protocol._on_connection_data_received",
    "secsgem.common.protocol:Protocol._process_data",
    "secsgem.common.byte_queue:ByteQueue.*",
    "secsgem.common.protocol_dispatcher:ProtocolDispatcher.*",
]

STYPES = [0, 1, 2, 3, 4, 5, 6, 7, 9]


# ------------------------------------------------------------------------------------------ (a) frames
def check_frame(case):
    f = case
    body = bytes((i * 13 + 5) & 0xFF for i in range(f["blen"]))
    want = e37.frame(f["session"], f["w"], f["stream"], f["function"], f["ptype"], f["stype"], f["system"], body)
    out = []
    sig = f"stype={f['stype']}|blen={'0' if f['blen'] == 0 else ('small' if f['blen'] < 65536 else 'big')}"
    try:
        hdr = secsgem.hsms.HsmsHeader(f["system"], f["session"], f["stream"], f["function"], bool(f["w"]), f["ptype"], secsgem.hsms.HsmsSType(f["stype"]))
        msg = secsgem.hsms.HsmsMessage(hdr, body)
        blocks = msg.blocks
        got = b"".join(bytes(b.encode()) for b in blocks)
    except Exception as exc:  # noqa: BLE001
        return {"v": [(f"C04|frame-encode-raises|{sig}", {"case": case, "error": repr(exc)})], "nt": True}
    if got != want:
        out.append((f"C04|frame-bytes-differ|{sig}|{_field(got, want)}", {"case": case, "got": got[:20].hex(), "want": want[:20].hex(), "got_len": len(got), "want_len": len(want)}))
    try:
        from secsgem.hsms.message import HsmsBlock  # noqa: PLC0415

        d = HsmsBlock.decode(want)
        h = d.header
        fields = {"session": h.device_id, "w": h.require_response, "stream": h.stream, "function": h.function, "ptype": h.p_type,
                  "stype": h.s_type.value, "system": h.system}
        wantf = {k: (bool(f[k]) if k == "w" else f[k]) for k in fields}
        if fields != wantf:
            diff = sorted(k for k in fields if fields[k] != wantf[k])
            out.append((f"C04|frame-decode-fields-differ|{'+'.join(diff)}", {"case": case, "got": fields}))
        if bytes(d.data) != body:
            out.append((f"C04|frame-decode-body-differs|{sig}", {"case": case}))
    except Exception as exc:  # noqa: BLE001
        out.append((f"C04|frame-decode-raises|{sig}", {"case": case, "error": repr(exc)}))
    return {"v": out, "nt": True}


def _field(g, w):
    if len(g) != len(w):
        return "length"
    for i, (a, b) in enumerate(zip(g, w)):
        if a != b:
            return ["len", "len", "len", "len", "session", "session", "stream/W", "function", "ptype", "stype", "system", "system", "system", "system"][i] if i < 14 else "body"
    return "none"


def frame_cases(thorough):
    base = {"session": 0x1234, "w": 1, "stream": 0x55, "function": 0xAA, "ptype": 0, "stype": 0, "system": 0x01020304, "blen": 3}
    yield dict(base)
    dims = {"session": [0, 1, 0x7FFF, 0x8000, 0xFFFF], "w": [0], "stream": [0, 1, 127], "function": [0, 1, 255], "ptype": [1, 255],
            "stype": STYPES[1:], "system": [0, 1, 2 ** 31, 2 ** 32 - 1],
            "blen": [0, 1, 2, 255, 256, 65535, 65536] + ([2 ** 20 - 1, 2 ** 20, 2 ** 20 + 1] if thorough else [])}
    for k, vals in dims.items():
        for v in vals:
            yield dict(base, **{k: v})
    keys = list(dims)
    for k1, k2 in itertools.combinations(keys, 2):
        for v1 in dims[k1][:3]:
            for v2 in dims[k2][:3]:
                if "blen" in (k1, k2) and max(v1 if k1 == "blen" else 0, v2 if k2 == "blen" else 0) > 300:
                    continue
                yield dict(base, **{k1: v1, k2: v2})
    if thorough:
        for combo in itertools.product([0, 0xFFFF], [0, 1], [0, 127], [0, 255], [0, 255], STYPES, [0, 2 ** 32 - 1], [0, 1]):
            yield dict(zip(["session", "w", "stream", "function", "ptype", "stype", "system", "blen"], combo))


# ------------------------------------------------------------------------------------------ (b) streams
def F(kind, system):  # noqa: N802
    if kind == "d9":
        return e37.data(9, 1, False, system, e5.enc(("B", bytes([system & 0xFF] * 10))))
    if kind == "d1":
        return e37.data(1, 1, False, system)
    if kind == "dw":
        return e37.data(1, 1, True, system)
    if kind == "lt":
        return e37.control(e37.LINKTEST_REQ, system)
    if kind == "big":
        return e37.data(9, 1, False, system, e5.enc(("B", bytes(range(10)))) )
    raise ValueError(kind)


SEQS = [
    [("d1", 0x101)], [("d9", 0x102)], [("lt", 0x103)],
    [("d1", 0x101), ("d9", 0x102)], [("d9", 0x102), ("d1", 0x101)], [("lt", 0x103), ("d9", 0x102)], [("d9", 0x102), ("lt", 0x103)],
    [("d9", 0x102), ("d9", 0x102)], [("d1", 0x101), ("d1", 0x104)],
    [("d1", 0x101), ("lt", 0x103), ("d9", 0x102)], [("d9", 0x102), ("d1", 0x101), ("d9", 0x105)], [("lt", 0x103), ("lt", 0x106), ("d1", 0x101)],
]


def expected(seq):
    deliveries = []
    replies = []
    for kind, system in seq:
        if kind == "lt":
            replies.append((e37.LINKTEST_RSP, system))
        else:
            fr = e37.parse(F(kind, system))[0][0]
            deliveries.append((system, fr["stream"], fr["function"], fr["body"].hex()))
    return deliveries, replies


def run_stream(devs, budgets, seq=None, cuts=None, mode="stepwise", stale=None):
    box = {}
    stream = b"".join(F(k, s) for k, s in seq)

    def driver(s):
        s.frozen = True  # reaching SELECTED is set-up
        ep = hh.Endpoint(active=False)
        got = []
        ep.protocol.events.message_received += lambda d: got.append((d["message"].header.system, d["message"].header.stream,
                                                                     d["message"].header.function, bytes(d["message"].data).hex()))
        if not hh.select_passive(s, ep):
            box["harness"] = "not selected"
            return
        ep.pump()
        if stale is not None:
            # an earlier connection of the same protocol object ended inside a frame: `stale` bytes of a 24-byte data frame were received
            ep.conn.peer_send(e37.data(9, 1, False, 0x333, e5.enc(("B", bytes(range(8)))))[:stale])
            s.settle()
            ep.conn.peer_close()
            s.settle()
            ep.reset_wire()
            ep.conn.peer_connect()
            s.settle()
            ep.conn.peer_send(e37.control(e37.SELECT_REQ, 0x7002))
            s.settle()
            ep.pump()
            if ep.state() != "CONNECTED_SELECTED":
                box["not_selected_again"] = ep.state()
                box["got"], box["replies"], box["state"], box["rxbuf"] = got, [], ep.state(), 0
                return
        s.frozen = False
        segs = gen.split_at(stream, cuts)
        if mode == "stepwise":
            for seg in segs:
                ep.conn.peer_send(seg)
                s.settle()
        else:
            for seg in segs:
                ep.conn.peer_send(seg)
            s.settle()
        frames = ep.pump()
        box["got"] = got
        box["replies"] = [(f["stype"], f["system"]) for f in frames if f["stype"] != 0]
        box["state"] = ep.state()
        box["rxbuf"] = len(getattr(ep.protocol, "_receive_buffer", b""))

    sched = vrt.run(driver, devs, budgets, max_steps=400000, max_time=1e6, line_points=(mode != "stepwise"))
    res = {"trace": sched.trace, "v": []}
    case = {"seq": seq, "cuts": cuts, "mode": mode, "part": "stream", "stale": stale}
    if box.get("not_selected_again"):
        res["v"].append((f"C04|connection-after-a-partial-frame-does-not-select|stale={'length' if stale < 4 else ('header' if stale < 14 else 'body')}",
                         {"case": case, "state": box["not_selected_again"]}))
        res["obs"] = "not selected again"
        return res
    if sched.harness_failure or sched.driver_exception or box.get("harness"):
        res["harness"] = (sched.harness_failure or sched.driver_exception or box.get("harness"))[-1000:]
        res["obs"] = None
        return res
    want_d, want_r = expected(seq)
    ncuts = "all-bytes" if len(cuts) == len(stream) - 1 else len(cuts)
    where = _cut_region(stream, seq, cuts)
    if sched.outcome != "done":
        res["v"].append((f"C04|stream-execution-{sched.outcome}|{mode}", {"case": case, "info": sched.deadlock_info}))
        res["obs"] = sched.outcome
        return res
    got, rep = box["got"], box["replies"]
    res["obs"] = {"delivered": len(got), "replies": len(rep)}
    if got != want_d:
        kind = "lost" if len(got) < len(want_d) else ("duplicated" if len(got) > len(want_d) else ("reordered" if sorted(got) == sorted(want_d) else "altered"))
        res["v"].append((f"C04|deliveries-{kind}|{mode}|cuts={ncuts}|{where}", {"case": case, "got": got, "want": want_d}))
    if rep != want_r:
        res["v"].append((f"C04|control-replies-differ|{mode}|cuts={ncuts}|{where}", {"case": case, "got": rep, "want": want_r}))
    if box["rxbuf"]:
        res["v"].append((f"C04|bytes-left-in-receive-buffer|{mode}", {"case": case, "left": box["rxbuf"]}))
    return res


# ------------------------------------------------------------------------------------------ (d) outbound bytes
def check_outbound(case):
    """Bytes handed to Connection.send_data for one data message, concatenated, are exactly the E37 frame - for every frame size around
    multiples of the outbound packet size (class attribute send_packet_size, lowered in a subclass for the sweep, default for the big ones)."""
    psize, lengths = case["psize"], case["lengths"]
    box = {"got": []}

    def driver(s):
        if psize is None:
            proto_cls = secsgem.hsms.HsmsProtocol
        else:
            proto_cls = type("SmallPackets", (secsgem.hsms.HsmsProtocol,), {"send_packet_size": psize})
        from mc import env  # noqa: PLC0415

        settings = env.hsms_settings(active=False)
        ep = hh.Endpoint(active=False, protocol=proto_cls(settings), settings=settings)
        if not hh.select_passive(s, ep):
            box["harness"] = "not selected"
            return
        ep.pump()
        conn = ep.conn
        for n in lengths:
            body = bytes((i * 7 + n) & 0xFF for i in range(n))
            n0 = len(conn.sent)
            hdr = secsgem.hsms.HsmsStreamFunctionHeader(0x4000 + (n & 0xFFF), 9, 1, False, 0)
            ok = ep.protocol.send_message(secsgem.hsms.HsmsMessage(hdr, body))
            s.settle()
            wire = b"".join(d for _, d, _ in conn.sent[n0:])
            box["got"].append((n, ok, wire, [len(d) for _, d, _ in conn.sent[n0:]], e37.frame(0, False, 9, 1, 0, 0, 0x4000 + (n & 0xFFF), body)))
        ep.protocol.disable()

    sched = vrt.run(driver, max_steps=2_000_000, max_time=1e6, line_points=False)
    if sched.harness_failure or sched.driver_exception or box.get("harness"):
        return {"v": [("HARNESS|c04-outbound", {"case": case, "trace": (sched.harness_failure or sched.driver_exception or box.get("harness"))[-800:]})], "nt": True}
    out = []
    if sched.outcome != "done":
        out.append((f"C04|outbound-execution-{sched.outcome}", {"case": case, "info": sched.deadlock_info}))
    for n, ok, wire, sizes, want in box["got"]:
        total = 14 + n
        p = psize or 1024 * 1024
        rel = "multiple" if total % p == 0 else ("multiple+1" if total % p == 1 else ("multiple-1" if total % p == p - 1 else "other"))
        if not ok:
            out.append((f"C04|outbound-send-reports-failure|{rel}", {"case": dict(case, lengths=[n])}))
        elif wire != want:
            kind = "short" if len(wire) < len(want) else ("long" if len(wire) > len(want) else "altered")
            out.append((f"C04|outbound-bytes-{kind}|frame-size={rel}-of-packet-size", {"case": dict(case, lengths=[n]), "wire_len": len(wire), "want_len": len(want),
                                                                                     "send_data_sizes": sizes[:8]}))
        elif any(x > p for x in sizes):
            out.append(("C04|outbound-packet-larger-than-packet-size", {"case": dict(case, lengths=[n]), "send_data_sizes": sizes[:8]}))
    return {"v": out, "nt": True, "cnt": {"outbound_messages": len(box["got"])}}


# ------------------------------------------------------------------------------------------ (c) the byte queue alone
BQ_REGION = ["secsgem.common.byte_queue:ByteQueue.*"]


def run_bq(devs, budgets, seq=None, cuts=None, style="hsms"):
    """One producer appending the segments, one consumer framing them the way the two transports do, on a real ByteQueue;
    scheduling points at every bytecode instruction of ByteQueue."""
    from secsgem.common.byte_queue import ByteQueue  # noqa: PLC0415

    box = {"frames": [], "seen": []}
    raw = [F(k, s) for k, s in seq]
    stream = b"".join(raw)
    segs = gen.split_at(stream, cuts)

    def driver(s):
        q = ByteQueue()
        trigger = vrt.Event()
        done = vrt.Event()
        frames = box["frames"]

        def producer():
            for seg in segs:
                q.append(seg)
                trigger.set()
            done.set()
            trigger.set()

        def consumer_hsms():
            # the loop of HsmsProtocol._process_received_data, run once per wake-up as the receiver thread does
            while len(b"".join(frames)) < len(stream):
                trigger.wait()
                trigger.clear()
                while len(q) > 3:
                    length = int.from_bytes(q.peek(4), "big") + 4
                    if len(q) < length:
                        break
                    frames.append(bytes(q.pop(length)))
                    box["seen"].append(len(q))
                if done.is_set() and len(q) < 4:
                    break

        def consumer_blocking():
            # the blocking style of the SECS-I receiver: wait_for(n) with and without peek
            for _ in raw:
                head = q.wait_for(4, peek=True)
                length = int.from_bytes(head, "big") + 4
                frames.append(bytes(q.wait_for(length)))
                box["seen"].append(len(q))

        tc = vrt.Thread(target=consumer_hsms if style == "hsms" else consumer_blocking, name="consumer")
        tp = vrt.Thread(target=producer, name="producer")
        tc.start()
        tp.start()
        tp.join()
        tc.join()
        box["left"] = len(q)

    sched = vrt.run(driver, devs, budgets, max_steps=200000, max_time=1e6, line_points=True)
    res = {"trace": sched.trace, "v": []}
    case = {"seq": seq, "cuts": cuts, "style": style, "part": "bq"}
    if sched.harness_failure or sched.driver_exception:
        res["harness"] = (sched.harness_failure or sched.driver_exception)[-1000:]
        res["obs"] = None
        return res
    if sched.outcome != "done":
        res["v"].append((f"C04|byte-queue-execution-{sched.outcome}|{style}", {"case": case, "info": sched.deadlock_info,
                                                                                "thread_errors": sched.thread_errors[:2]}))
        res["obs"] = sched.outcome
        return res
    # 'seen' = bytes still queued after each pop: differs between interleavings, so the outcome count shows producer and consumer really overlap
    res["obs"] = {"frames": len(box["frames"]), "left": box["left"], "seen": box["seen"]}
    if sched.thread_errors:
        res["v"].append((f"C04|byte-queue-user-raises|{style}", {"case": case, "errors": sched.thread_errors[:2]}))
    elif box["frames"] != raw:
        got = b"".join(box["frames"])
        kind = "bytes-lost" if len(got) < len(stream) else ("bytes-duplicated" if len(got) > len(stream) else
                                                            ("bytes-altered" if got != stream else "frames-cut-differently"))
        res["v"].append((f"C04|byte-queue-{kind}|{style}", {"case": case, "got": [f.hex() for f in box["frames"]], "want": [f.hex() for f in raw]}))
    elif box["left"]:
        res["v"].append((f"C04|byte-queue-not-empty-at-end|{style}", {"case": case, "left": box["left"]}))
    return res


def run_early(devs, budgets, seq=None, cuts=None):
    """The peer's first segments (Select.req and the frames after it) are already on their way while the connection is being accepted:
    every schedule with <= K delays of the accepting thread, the connection's receiver thread and the protocol threads."""
    box = {}
    stream = e37.control(e37.SELECT_REQ, 0x7001) + b"".join(F(k, s) for k, s in seq)

    def driver(s):
        ep = hh.Endpoint(active=False)
        got = []
        ep.protocol.events.message_received += lambda d: got.append((d["message"].header.system, d["message"].header.stream,
                                                                     d["message"].header.function, bytes(d["message"].data).hex()))
        ep.protocol.enable()
        ep.conn.peer_connect()
        for seg in gen.split_at(stream, cuts):
            ep.conn.peer_send(seg)
        s.settle()
        frames = ep.pump()
        box["got"] = got
        box["replies"] = [(f["stype"], f["system"]) for f in frames if f["stype"] != 0]
        box["state"] = ep.state()
        box["rxbuf"] = len(getattr(ep.protocol, "_receive_buffer", b""))

    sched = vrt.run(driver, devs, budgets, max_steps=400000, max_time=1e6, line_points=True)
    res = {"trace": sched.trace, "v": []}
    case = {"seq": seq, "cuts": cuts, "part": "early"}
    if sched.harness_failure or sched.driver_exception:
        res["harness"] = (sched.harness_failure or sched.driver_exception)[-1000:]
        res["obs"] = None
        return res
    if sched.outcome != "done":
        res["v"].append((f"C04|early-segments|execution-{sched.outcome}", {"case": case, "info": sched.deadlock_info}))
        res["obs"] = sched.outcome
        return res
    want_d, want_r = expected(seq)
    want_r = [(e37.SELECT_RSP, 0x7001)] + want_r
    res["obs"] = {"delivered": len(box["got"]), "replies": len(box["replies"]), "state": box["state"]}
    if box["got"] != want_d or box["replies"] != want_r or box["rxbuf"]:
        res["v"].append(("C04|early-segments|frames-sent-while-the-connection-was-accepted-not-all-handled",
                         {"case": case, "got": box["got"], "replies": box["replies"], "want": want_d, "want_replies": want_r, "left": box["rxbuf"], "state": box["state"]}))
    return res


def check_two_endpoints(case):
    """Two protocol objects in one process, each fed its own stream, segments alternating: each delivers exactly its own messages
    (nothing of the receive path may be shared between objects)."""
    seqs = [[tuple(x) for x in case["seq_a"]], [tuple(x) for x in case["seq_b"]]]
    box = {}

    def driver(s):
        eps, gots = [], []
        for _ in range(2):
            ep = hh.Endpoint(active=False)
            got = []
            ep.protocol.events.message_received += lambda d, got=got: got.append((d["message"].header.system, d["message"].header.stream,
                                                                                   d["message"].header.function, bytes(d["message"].data).hex()))
            if not hh.select_passive(s, ep):
                box["harness"] = "not selected"
                return
            ep.pump()
            eps.append(ep)
            gots.append(got)
        segs = [gen.split_at(b"".join(F(k, sy) for k, sy in seq), case["cuts"]) for seq in seqs]
        for i in range(max(len(x) for x in segs)):
            for e in range(2):
                if i < len(segs[e]):
                    eps[e].conn.peer_send(segs[e][i])
            s.settle()
        box["got"] = gots
        box["replies"] = [[(f["stype"], f["system"]) for f in ep.pump() if f["stype"] != 0] for ep in eps]

    sched = vrt.run(driver, max_steps=400000, max_time=1e6, line_points=False)
    if sched.harness_failure or sched.driver_exception or box.get("harness"):
        return {"v": [("HARNESS|c04-two-endpoints", {"case": case, "trace": (sched.harness_failure or sched.driver_exception or box.get("harness"))[-800:]})], "nt": True}
    out = []
    if sched.outcome != "done":
        out.append((f"C04|two-endpoints|execution-{sched.outcome}", {"case": case, "info": sched.deadlock_info}))
        return {"v": out, "nt": True}
    for e in range(2):
        want_d, want_r = expected(seqs[e])
        if box["got"][e] != want_d or box["replies"][e] != want_r:
            out.append(("C04|two-endpoints|an-endpoint-does-not-deliver-exactly-its-own-stream", {"case": case, "endpoint": e, "got": box["got"][e], "want": want_d,
                                                                                                 "replies": box["replies"][e]}))
    return {"v": out, "nt": True}


def _cut_region(stream, seq, cuts):
    if not cuts or len(cuts) == len(stream) - 1:
        return "-"
    # region of the first cut relative to its frame: inside length field / header / body / on a frame boundary
    bounds = []
    pos = 0
    for k, s in seq:
        n = len(F(k, s))
        bounds.append((pos, pos + n))
        pos += n
    regs = set()
    for c in cuts:
        for a, b in bounds:
            if a < c <= b:
                off = c - a
                regs.add("boundary" if c == b else ("length" if off < 4 else ("header" if off < 14 else "body")))
    return "+".join(sorted(regs))


def check_case(case):
    if case["kind"] == "frame":
        return check_frame(case["f"])
    if case["kind"] == "outbound":
        return check_outbound(case)
    if case["kind"] == "two":
        return check_two_endpoints(case)
    r = run_stream({}, {}, seq=[tuple(x) for x in case["seq"]], cuts=case["cuts"], mode="stepwise", stale=case.get("stale"))
    v = r["v"]
    if r.get("harness"):
        v = v + [("HARNESS|c04", {"case": case, "trace": r["harness"]})]
    return {"v": v, "nt": bool(case["cuts"])}


def stream_cases(thorough):
    for seq in SEQS:
        stream = b"".join(F(k, s) for k, s in seq)
        maxc = (3 if thorough else 2) if len(seq) <= 2 else (2 if thorough else 1)
        if len(stream) <= 14:
            # one 14-byte frame: every partition
            for mask in range(1 << (len(stream) - 1)):
                yield {"kind": "stream", "seq": seq, "cuts": [i + 1 for i in range(len(stream) - 1) if mask >> i & 1]}
            continue
        for cuts in gen.cut_sets(len(stream), maxc):
            yield {"kind": "stream", "seq": seq, "cuts": cuts}
    # a previous connection of the same object ended after `stale` bytes of a frame: the stream of the next connection is reassembled alone
    for seq in (SEQS[3], SEQS[9]):
        stream = b"".join(F(k, s) for k, s in seq)
        for stale in (1, 3, 4, 5, 13, 14, 15, 23):
            for cuts in ([], [2], [len(stream) // 2], list(range(1, len(stream)))):
                yield {"kind": "stream", "seq": seq, "cuts": cuts, "stale": stale}


def run(ctx):
    ctx.assumptions += [
        "reference frame codec ref/e37.py; SType values outside the nine E37 codes are not fed",
        "segments are delivered through the in-memory LoopConnection by its receiver thread in chunks of <= 1024 bytes",
        "stepwise mode settles after every segment (default schedule); coalesced mode explores all schedules with <= K delays "
        "of connection receiver, protocol receiver and dispatcher at line granularity",
        "part (c) drives a real ByteQueue alone with one producer and one consumer that frames the bytes the way HsmsProtocol._process_received_data "
        "(non-blocking, per wake-up) and the SECS-I receiver (blocking wait_for) do; every bytecode instruction of ByteQueue is a scheduling point",
    ]
    # S part first (line tracing before the pool is forked)
    missing = hh.trace_region(REGION)
    if missing:
        ctx.note(f"not line-traced (not found): {missing}")
    states = trans = 0
    k = 2 if ctx.thorough else 1
    sparts = []
    for seq in (SEQS[3], SEQS[9]) + ((SEQS[5], SEQS[7]) if ctx.thorough else ()):
        stream = b"".join(F(kk, s) for kk, s in seq)
        for cuts in ([], [2], [9], [14], [len(stream) // 2], list(range(1, len(stream)))):
            st = explore.explore(ctx, run_stream, {"sched": k}, f"c04-coalesced-{len(seq)}-{len(cuts)}", opts={"seq": seq, "cuts": cuts, "mode": "coalesced"})
            sparts.append({"frames": len(seq), "cuts": len(cuts), "executions": st["executions"], "outcomes": st["distinct_outcomes"],
                           "levels_completed": st["levels_completed"]})
            trans += st["executions"]
            states += st["distinct_outcomes"]
            if st["levels_completed"] < k:
                ctx.exhaustive = False
            if ctx.out_of_time():
                break
    for seq in (SEQS[3], SEQS[5]):
        for cuts in ([], [14], [20]):
            st = explore.explore(ctx, run_early, {"sched": k}, f"c04-early-{len(seq)}-{cuts}", opts={"seq": seq, "cuts": cuts})
            sparts.append({"early": True, "frames": len(seq), "cuts": cuts, "executions": st["executions"], "outcomes": st["distinct_outcomes"],
                           "levels_completed": st["levels_completed"]})
            trans += st["executions"]
            states += st["distinct_outcomes"]
            if st["levels_completed"] < k:
                ctx.exhaustive = False
    ctx.setcov("coalesced_explorations", sparts)
    # (c) the queue alone, instruction granularity (a second tool pass: the region above stays line-traced for the parts above)
    fns, _ = vrt.resolve(BQ_REGION)
    vrt.trace_functions(fns, instructions=True)
    explore.close_pool()  # workers forked before this point do not see the new events
    kq = 3 if ctx.thorough else 2
    bparts = []
    for seq in (SEQS[3], SEQS[9]):
        stream = b"".join(F(kk, s) for kk, s in seq)
        for cuts in ([14], [2, 14], [9, 20], [len(stream) // 2]) + (([4, 14, 18],) if ctx.thorough else ()):
            for style in ("hsms", "blocking"):
                st = explore.explore(ctx, run_bq, {"sched": kq}, f"c04-bytequeue-{style}-{len(seq)}-{cuts}", opts={"seq": seq, "cuts": cuts, "style": style})
                bparts.append({"frames": len(seq), "cuts": cuts, "style": style, "executions": st["executions"], "outcomes": st["distinct_outcomes"],
                               "levels_completed": st["levels_completed"]})
                trans += st["executions"]
                states += st["distinct_outcomes"]
                if st["levels_completed"] < kq:
                    ctx.exhaustive = False
        if ctx.out_of_time():
            break
    ctx.setcov("byte_queue_explorations", bparts)
    ctx.setcov("delay_bound_byte_queue", kq)
    ctx.setcov("delay_bound", k)

    def cases():
        for f in frame_cases(ctx.thorough):
            yield {"kind": "frame", "f": f}
        yield from stream_cases(ctx.thorough)
        # two protocol objects side by side, alternating segments
        for sa, sb in ((SEQS[3], SEQS[4]), (SEQS[9], SEQS[10]), (SEQS[7], SEQS[7])):
            n = min(len(b"".join(F(k, sy) for k, sy in sa)), len(b"".join(F(k, sy) for k, sy in sb)))
            for cuts in ([], [2], [9], [14], [n // 2], [5, 16, 21], list(range(1, n))):
                yield {"kind": "two", "seq_a": sa, "seq_b": sb, "cuts": cuts}
        # outbound: every frame size 14 .. 3 * P + 16 for small packet sizes P; around 1 (2, 3 thorough) MiB for the shipped P
        for psize in (5, 16, 64):
            alln = list(range(0, 3 * psize + 3))
            for i in range(0, len(alln), 24):
                yield {"kind": "outbound", "psize": psize, "lengths": alln[i:i + 24]}
        mib = 1024 * 1024
        for k in (1,) + ((2, 3) if ctx.thorough else ()):
            yield {"kind": "outbound", "psize": None, "lengths": [k * mib - 14 + d for d in (-1, 0, 1, 2)]}

    n = ctx.run_cases(check_case, cases(), "c04", chunk=32)
    ctx.setcov("states", states + n)
    ctx.setcov("transitions", trans + n)
    ctx.setcov("traces_validated_against_impl", trans + n)
    ctx.setcov("states_meaning", "frame cases + (sequence, cut set) executions + distinct outcomes of the schedule explorations")


def replay(ctx, detail):
    case = detail["case"]
    if case.get("part") == "bq":
        fns, _ = vrt.resolve(BQ_REGION)
        vrt.trace_functions(fns, instructions=True)
        devs = {int(k): v for k, v in case.get("devs", {}).items()}
        r = run_bq(devs, case.get("budgets", {}), seq=[tuple(x) for x in case["seq"]], cuts=case["cuts"], style=case["style"])
        print("replayed:", r.get("obs"))
        res = r["v"]
    elif case.get("part") == "early":
        hh.trace_region(REGION)
        devs = {int(k): v for k, v in case.get("devs", {}).items()}
        r = run_early(devs, case.get("budgets", {}), seq=[tuple(x) for x in case["seq"]], cuts=case["cuts"])
        print("replayed:", r.get("obs"))
        res = r["v"]
    elif case.get("part") == "stream":
        if case.get("mode") != "stepwise":
            hh.trace_region(REGION)
        devs = {int(k): v for k, v in case.get("devs", {}).items()}
        r = run_stream(devs, case.get("budgets", {}), seq=[tuple(x) for x in case["seq"]], cuts=case["cuts"], mode=case["mode"], stale=case.get("stale"))
        print("replayed:", r.get("obs"))
        res = r["v"]
    else:
        res = check_case(case)["v"]
    ctx.evaluations += 1
    for sig, d in res:
        ctx.violation(sig, d)
