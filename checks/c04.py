"""C04 - HSMS frames are bit-exact and reassembled independently of TCP segmentation.

(a) Shape E: header field boundary sets x all STypes x body lengths against the independent frame codec.
(b) Shape S/H: sequences of 1-3 frames fed to a real SELECTED HsmsProtocol for every set of <= C cut positions
    of the concatenated byte stream, the all-single-bytes partition and (for one 14-byte frame) all 2^13
    partitions; segments arrive one after the other (the receiver blocks inside a partial frame) and, in a
    second mode, all at once under every schedule with <= K delays at line granularity.
    Oracle: deliveries and control replies equal those of the uncut stream - same messages, same order.
"""
from __future__ import annotations

import itertools

from checks import hsms_harness as hh
from mc import explore, gen, vrt
from ref import e5, e37

import secsgem.hsms

LEVEL = "model_checking"
BUDGET = {"quick": 420, "thorough": 3000}

REGION = [
    "secsgem.hsms.protocol:HsmsProtocol._process_received_data",
    "secsgem.common.protocol:Protocol._on_connection_data_received",
    "secsgem.common.protocol:Protocol._process_data",
    "secsgem.common.byte_queue:ByteQueue.*",
    "secsgem.common.protocol_dispatcher:ProtocolDispatcher.*",
]

STYPES = [0, 1, 2, 3, 4, 5, 6, 7, 9]


# ------------------------------------------------------------------------------------------ (a) frames
def check_frame(case):
    f = case
    body = bytes((i * 13 + 5) & 0xFF for i in range(f["blen"]))
    want = e37.frame(f["session"], f["w"], f["stream"], f["function"], f["ptype"], f["stype"], f["system"], body)
    out = []
    sig = f"stype={f['stype']}|blen={'0' if f['blen'] == 0 else ('small' if f['blen'] < 65536 else 'big')}"
    try:
        hdr = secsgem.hsms.HsmsHeader(f["system"], f["session"], f["stream"], f["function"], bool(f["w"]), f["ptype"], secsgem.hsms.HsmsSType(f["stype"]))
        msg = secsgem.hsms.HsmsMessage(hdr, body)
        blocks = msg.blocks
        got = b"".join(bytes(b.encode()) for b in blocks)
    except Exception as exc:  # noqa: BLE001
        return {"v": [(f"C04|frame-encode-raises|{sig}", {"case": case, "error": repr(exc)})], "nt": True}
    if got != want:
        out.append((f"C04|frame-bytes-differ|{sig}|{_field(got, want)}", {"case": case, "got": got[:20].hex(), "want": want[:20].hex(), "got_len": len(got), "want_len": len(want)}))
    try:
        from secsgem.hsms.message import HsmsBlock  # noqa: PLC0415

        d = HsmsBlock.decode(want)
        h = d.header
        fields = {"session": h.device_id, "w": h.require_response, "stream": h.stream, "function": h.function, "ptype": h.p_type,
                  "stype": h.s_type.value, "system": h.system}
        wantf = {k: (bool(f[k]) if k == "w" else f[k]) for k in fields}
        if fields != wantf:
            diff = sorted(k for k in fields if fields[k] != wantf[k])
            out.append((f"C04|frame-decode-fields-differ|{'+'.join(diff)}", {"case": case, "got": fields}))
        if bytes(d.data) != body:
            out.append((f"C04|frame-decode-body-differs|{sig}", {"case": case}))
    except Exception as exc:  # noqa: BLE001
        out.append((f"C04|frame-decode-raises|{sig}", {"case": case, "error": repr(exc)}))
    return {"v": out, "nt": True}


def _field(g, w):
    if len(g) != len(w):
        return "length"
    for i, (a, b) in enumerate(zip(g, w)):
        if a != b:
            return ["len", "len", "len", "len", "session", "session", "stream/W", "function", "ptype", "stype", "system", "system", "system", "system"][i] if i < 14 else "body"
    return "none"


def frame_cases(thorough):
    base = {"session": 0x1234, "w": 1, "stream": 0x55, "function": 0xAA, "ptype": 0, "stype": 0, "system": 0x01020304, "blen": 3}
    yield dict(base)
    dims = {"session": [0, 1, 0x7FFF, 0x8000, 0xFFFF], "w": [0], "stream": [0, 1, 127], "function": [0, 1, 255], "ptype": [1, 255],
            "stype": STYPES[1:], "system": [0, 1, 2 ** 31, 2 ** 32 - 1],
            "blen": [0, 1, 2, 255, 256, 65535, 65536] + ([2 ** 20 - 1, 2 ** 20, 2 ** 20 + 1] if thorough else [])}
    for k, vals in dims.items():
        for v in vals:
            yield dict(base, **{k: v})
    keys = list(dims)
    for k1, k2 in itertools.combinations(keys, 2):
        for v1 in dims[k1][:3]:
            for v2 in dims[k2][:3]:
                if "blen" in (k1, k2) and max(v1 if k1 == "blen" else 0, v2 if k2 == "blen" else 0) > 300:
                    continue
                yield dict(base, **{k1: v1, k2: v2})
    if thorough:
        for combo in itertools.product([0, 0xFFFF], [0, 1], [0, 127], [0, 255], [0, 255], STYPES, [0, 2 ** 32 - 1], [0, 1]):
            yield dict(zip(["session", "w", "stream", "function", "ptype", "stype", "system", "blen"], combo))


# ------------------------------------------------------------------------------------------ (b) streams
def F(kind, system):  # noqa: N802
    if kind == "d9":
        return e37.data(9, 1, False, system, e5.enc(("B", bytes([system & 0xFF] * 10))))
    if kind == "d1":
        return e37.data(1, 1, False, system)
    if kind == "dw":
        return e37.data(1, 1, True, system)
    if kind == "lt":
        return e37.control(e37.LINKTEST_REQ, system)
    if kind == "big":
        return e37.data(9, 1, False, system, e5.enc(("B", bytes(range(10)))) )
    raise ValueError(kind)


SEQS = [
    [("d1", 0x101)], [("d9", 0x102)], [("lt", 0x103)],
    [("d1", 0x101), ("d9", 0x102)], [("d9", 0x102), ("d1", 0x101)], [("lt", 0x103), ("d9", 0x102)], [("d9", 0x102), ("lt", 0x103)],
    [("d9", 0x102), ("d9", 0x102)], [("d1", 0x101), ("d1", 0x104)],
    [("d1", 0x101), ("lt", 0x103), ("d9", 0x102)], [("d9", 0x102), ("d1", 0x101), ("d9", 0x105)], [("lt", 0x103), ("lt", 0x106), ("d1", 0x101)],
]


def expected(seq):
    deliveries = []
    replies = []
    for kind, system in seq:
        if kind == "lt":
            replies.append((e37.LINKTEST_RSP, system))
        else:
            fr = e37.parse(F(kind, system))[0][0]
            deliveries.append((system, fr["stream"], fr["function"], fr["body"].hex()))
    return deliveries, replies


def run_stream(devs, budgets, seq=None, cuts=None, mode="stepwise"):
    box = {}
    stream = b"".join(F(k, s) for k, s in seq)

    def driver(s):
        ep = hh.Endpoint(active=False)
        got = []
        ep.protocol.events.message_received += lambda d: got.append((d["message"].header.system, d["message"].header.stream,
                                                                     d["message"].header.function, bytes(d["message"].data).hex()))
        if not hh.select_passive(s, ep):
            box["harness"] = "not selected"
            return
        ep.pump()
        segs = gen.split_at(stream, cuts)
        if mode == "stepwise":
            for seg in segs:
                ep.conn.peer_send(seg)
                s.settle()
        else:
            for seg in segs:
                ep.conn.peer_send(seg)
            s.settle()
        frames = ep.pump()
        box["got"] = got
        box["replies"] = [(f["stype"], f["system"]) for f in frames if f["stype"] != 0]
        box["state"] = ep.state()
        box["rxbuf"] = len(getattr(ep.protocol, "_receive_buffer", b""))

    sched = vrt.run(driver, devs, budgets, max_steps=400000, max_time=1e6, line_points=(mode != "stepwise"))
    res = {"trace": sched.trace, "v": []}
    case = {"seq": seq, "cuts": cuts, "mode": mode, "part": "stream"}
    if sched.harness_failure or sched.driver_exception or box.get("harness"):
        res["harness"] = (sched.harness_failure or sched.driver_exception or box.get("harness"))[-1000:]
        res["obs"] = None
        return res
    want_d, want_r = expected(seq)
    ncuts = "all-bytes" if len(cuts) == len(stream) - 1 else len(cuts)
    where = _cut_region(stream, seq, cuts)
    if sched.outcome != "done":
        res["v"].append((f"C04|stream-execution-{sched.outcome}|{mode}", {"case": case, "info": sched.deadlock_info}))
        res["obs"] = sched.outcome
        return res
    got, rep = box["got"], box["replies"]
    res["obs"] = {"delivered": len(got), "replies": len(rep)}
    if got != want_d:
        kind = "lost" if len(got) < len(want_d) else ("duplicated" if len(got) > len(want_d) else ("reordered" if sorted(got) == sorted(want_d) else "altered"))
        res["v"].append((f"C04|deliveries-{kind}|{mode}|cuts={ncuts}|{where}", {"case": case, "got": got, "want": want_d}))
    if rep != want_r:
        res["v"].append((f"C04|control-replies-differ|{mode}|cuts={ncuts}|{where}", {"case": case, "got": rep, "want": want_r}))
    if box["rxbuf"]:
        res["v"].append((f"C04|bytes-left-in-receive-buffer|{mode}", {"case": case, "left": box["rxbuf"]}))
    return res


def _cut_region(stream, seq, cuts):
    if not cuts or len(cuts) == len(stream) - 1:
        return "-"
    # region of the first cut relative to its frame: inside length field / header / body / on a frame boundary
    bounds = []
    pos = 0
    for k, s in seq:
        n = len(F(k, s))
        bounds.append((pos, pos + n))
        pos += n
    regs = set()
    for c in cuts:
        for a, b in bounds:
            if a < c <= b:
                off = c - a
                regs.add("boundary" if c == b else ("length" if off < 4 else ("header" if off < 14 else "body")))
    return "+".join(sorted(regs))


def check_case(case):
    if case["kind"] == "frame":
        return check_frame(case["f"])
    r = run_stream({}, {}, seq=[tuple(x) for x in case["seq"]], cuts=case["cuts"], mode="stepwise")
    v = r["v"]
    if r.get("harness"):
        v = v + [("HARNESS|c04", {"case": case, "trace": r["harness"]})]
    return {"v": v, "nt": bool(case["cuts"])}


def stream_cases(thorough):
    for seq in SEQS:
        stream = b"".join(F(k, s) for k, s in seq)
        maxc = (3 if thorough else 2) if len(seq) <= 2 else (2 if thorough else 1)
        if len(stream) <= 14:
            # one 14-byte frame: every partition
            for mask in range(1 << (len(stream) - 1)):
                yield {"kind": "stream", "seq": seq, "cuts": [i + 1 for i in range(len(stream) - 1) if mask >> i & 1]}
            continue
        for cuts in gen.cut_sets(len(stream), maxc):
            yield {"kind": "stream", "seq": seq, "cuts": cuts}


def run(ctx):
    ctx.assumptions += [
        "reference frame codec ref/e37.py; SType values outside the nine E37 codes are not fed",
        "segments are delivered through the in-memory LoopConnection by its receiver thread in chunks of <= 1024 bytes",
        "stepwise mode settles after every segment (default schedule); coalesced mode explores all schedules with <= K delays "
        "of connection receiver, protocol receiver and dispatcher at line granularity",
    ]
    # S part first (line tracing before the pool is forked)
    missing = hh.trace_region(REGION)
    if missing:
        ctx.note(f"not line-traced (not found): {missing}")
    states = trans = 0
    k = 2 if ctx.thorough else 1
    sparts = []
    for seq in (SEQS[3], SEQS[9]) + ((SEQS[5], SEQS[7]) if ctx.thorough else ()):
        stream = b"".join(F(kk, s) for kk, s in seq)
        for cuts in ([], [2], [9], [14], [len(stream) // 2], list(range(1, len(stream)))):
            st = explore.explore(ctx, run_stream, {"sched": k}, f"c04-coalesced-{len(seq)}-{len(cuts)}", opts={"seq": seq, "cuts": cuts, "mode": "coalesced"})
            sparts.append({"frames": len(seq), "cuts": len(cuts), "executions": st["executions"], "outcomes": st["distinct_outcomes"],
                           "levels_completed": st["levels_completed"]})
            trans += st["executions"]
            states += st["distinct_outcomes"]
            if st["levels_completed"] < k:
                ctx.exhaustive = False
            if ctx.out_of_time():
                break
    ctx.setcov("coalesced_explorations", sparts)
    ctx.setcov("delay_bound", k)

    def cases():
        for f in frame_cases(ctx.thorough):
            yield {"kind": "frame", "f": f}
        yield from stream_cases(ctx.thorough)

    n = ctx.run_cases(check_case, cases(), "c04", chunk=32)
    ctx.setcov("states", states + n)
    ctx.setcov("transitions", trans + n)
    ctx.setcov("traces_validated_against_impl", trans + n)
    ctx.setcov("states_meaning", "frame cases + (sequence, cut set) executions + distinct outcomes of the schedule explorations")


def replay(ctx, detail):
    case = detail["case"]
    if case.get("part") == "stream":
        if case.get("mode") != "stepwise":
            hh.trace_region(REGION)
        devs = {int(k): v for k, v in case.get("devs", {}).items()}
        r = run_stream(devs, case.get("budgets", {}), seq=[tuple(x) for x in case["seq"]], cuts=case["cuts"], mode=case["mode"])
        print("replayed:", r.get("obs"))
        res = r["v"]
    else:
        res = check_case(case)["v"]
    ctx.evaluations += 1
    for sig, d in res:
        ctx.violation(sig, d)
