"""C09 - no peer behaviour wedges the endpoint: link loss ends in a clean, reusable state.

Level 1 (in-memory connection, exhaustive over byte offsets): for each session state x each inbound stream
x every byte offset k: deliver the first k bytes, then peer close / local disable / peer close, then connect
again, select, send a data message.  Oracle: every step completes in virtual time (no deadlock, no spinning
for ever), the state is NOT_CONNECTED after the loss, the next connection selects and the first message
decoded on it is the first one sent on it.
Level 2 (the real TcpServerConnection / TcpClientConnection over the virtual kernel, schedule exploration):
enable / disable / peer connect / peer close scripts under every schedule with <= K delays.  Oracle:
enable() and disable() return, no listening socket or connected socket of the library is left open after
disable(), and a later enable() works again.
"""
from __future__ import annotations

from checks import hsms_harness as hh
from mc import explore, vrt
from mc import vnet
from ref import e5, e37

import secsgem.hsms

vrt.trace_spin_loops(vrt.SPIN_MODULES)

LEVEL = "fault_enumeration"
BUDGET = {"quick": 420, "thorough": 3000}

T3 = 45.0


def frames(kind):
    d9 = e37.data(9, 1, False, 0x201, e5.enc(("B", bytes(range(10)))))
    d1 = e37.data(1, 1, False, 0x202)
    lt = e37.control(e37.LINKTEST_REQ, 0x203)
    dw = e37.data(1, 1, True, 0x204)
    sel = e37.control(e37.SELECT_REQ, 0x205)
    sep = e37.control(e37.SEPARATE_REQ, 0x207)
    return {"sep": [sep], "d9sep": [d9, sep], "sepd9": [sep, d9], "d9": [d9], "lt": [lt], "d9d1": [d9, d1], "d1ltd9": [d1, lt, d9], "dw": [dw], "sel_d9": [sel, d9], "lt_lt": [lt, e37.control(e37.LINKTEST_REQ, 0x206)]}[kind]


# ------------------------------------------------------------------------------------------ level 1
def run_l1(devs, budgets, state="SEL", stream="d9", k=0, action="peer_close", split=None, traced=False):
    box = {"steps": []}
    data = b"".join(frames(stream))

    def driver(s):
        ep = hh.Endpoint(active=False, t3=T3)
        proto = ep.protocol
        got = []
        proto.events.message_received += lambda d: got.append((d["message"].header.system, bytes(d["message"].data)))
        box["got"] = got
        proto.enable()
        conn = ep.conn
        conn.peer_connect()
        s.settle()
        if state in ("SEL", "SEL_OPEN"):
            conn.peer_send(e37.control(e37.SELECT_REQ, 0x7001))
            s.settle()
        if state == "SEL_OPEN":
            sf = ep.settings.streams_functions

            def req():
                box["req_result"] = proto.send_and_waitfor_response(sf.function(1, 1)())

            vrt.Thread(target=req, name="local-request").start()
            s.settle()
        ep.pump()
        box["steps"].append(("setup", ep.state()))
        prefix = data[:k]
        if prefix:
            if split is not None and 0 < split < k:
                conn.peer_send(prefix[:split])
                s.settle()
                conn.peer_send(prefix[split:])
            else:
                conn.peer_send(prefix)
            s.settle()
        box["steps"].append(("prefix", k))
        if action == "peer_close":
            conn.peer_close()
            s.settle()
            # a close sequence may legitimately wait on a (virtual) timeout: let time pass, up to 10 deadlines
            for _ in range(10):
                if not conn.link_up or not s.pending_deadlines():
                    break
                s.advance()
        elif action == "disable":
            proto.disable()
            box["steps"].append(("disable-returned", ep.state()))
            s.settle()
        box["steps"].append(("closed", ep.state(), conn.link_up))
        box["state_after_close"] = ep.state()
        box["link_after_close"] = conn.link_up
        # reusable: connect again, select, first message
        if action == "disable":
            proto.enable()
        ep.reset_wire()
        ep.pump()
        ok = conn.peer_connect()
        s.settle()
        conn.peer_send(e37.control(e37.SELECT_REQ, 0x7002))
        s.settle()
        frs = ep.pump()
        box["reselect"] = (ok, ep.state(), [e37.brief(f) for f in frs if f["stype"] == e37.SELECT_RSP and f["system"] == 0x7002])
        n0 = len(got)
        marker = e5.enc(("B", bytes([0xEE] * 10)))
        conn.peer_send(e37.data(9, 1, False, 0x7003, marker))
        s.settle()
        box["first_after"] = got[n0:]
        box["marker"] = marker
        # let a pending local request run into its timeout so that nothing is left blocked
        if state == "SEL_OPEN":
            for _ in range(3):
                if "req_result" in box:
                    break
                s.advance()
        proto.disable()
        box["steps"].append(("final-disable-returned",))

    sched = vrt.run(driver, devs, budgets, max_steps=400000, max_time=3600.0, line_points=traced)
    res = {"trace": sched.trace, "v": []}
    case = {"part": "l1", "state": state, "stream": stream, "k": k, "action": action, "split": split, "traced": traced}
    if sched.harness_failure or sched.driver_exception:
        res["harness"] = (sched.harness_failure or sched.driver_exception)[-1200:]
        res["obs"] = None
        return res
    where = _offset_class(stream, k)
    sig0 = f"{state}|{action}|{where}"
    res["obs"] = {"outcome": sched.outcome, "steps": [x[0] for x in box["steps"]][-1]}
    if sched.outcome != "done":
        last = box["steps"][-1][0] if box["steps"] else "start"
        res["v"].append((f"C09|L1|hang-after-{last}|{sched.outcome}|{sig0}", {"case": case, "info": sched.deadlock_info, "steps": box["steps"]}))
        return res
    if box.get("state_after_close") != "NOT_CONNECTED" or box.get("link_after_close"):
        res["v"].append((f"C09|L1|not-NOT_CONNECTED-after-loss|got={box.get('state_after_close')}|{sig0}", {"case": case}))
    ok, st, rsp = box["reselect"]
    if not ok or st != "CONNECTED_SELECTED" or len(rsp) != 1:
        res["v"].append((f"C09|L1|next-connection-does-not-select|state={st}|rsp={len(rsp)}|{sig0}", {"case": case, "reselect": box["reselect"]}))
    elif box["first_after"] != [(0x7003, box["marker"])]:
        kind = "none" if not box["first_after"] else "other"
        res["v"].append((f"C09|L1|first-message-on-next-connection-{kind}|{sig0}", {"case": case, "got": [(a, b.hex()) for a, b in box["first_after"]]}))
    return res


def _offset_class(stream, k):
    pos = 0
    for f in frames(stream):
        if k == pos:
            return "frame-boundary"
        if pos < k < pos + len(f):
            off = k - pos
            return "in-length" if off < 4 else ("in-header" if off < 14 else "in-body")
        pos += len(f)
    return "frame-boundary"


# ------------------------------------------------------------------------------------------ level 2
REGION_L1 = [
    "secsgem.common.protocol_dispatcher:ProtocolDispatcher.*",
    "secsgem.hsms.protocol:HsmsProtocol._on_connected",
    "secsgem.hsms.protocol:HsmsProtocol._on_disconnecting",
    "secsgem.hsms.protocol:HsmsProtocol._on_disconnected",
    "secsgem.common.protocol:Protocol.enable",
    "secsgem.common.protocol:Protocol.disable",
]
REGION_L2 = [
    "secsgem.common.tcp_server_connection:TcpServerConnection.*",
    "secsgem.common.tcp_client_connection:TcpClientConnection.*",
    "secsgem.common.tcp_connection:TcpConnection.disconnect",
    "secsgem.common.tcp_connection:TcpConnection._start_receiver",
    "secsgem.common.tcp_connection:TcpConnection.__receiver_thread",
    "secsgem.common.tcp_connection:TcpConnection.__receiver_thread_read_data",
]
ADDR = ("10.0.0.9", 5001)


def run_l2(devs, budgets, script="srv_enable_disable", traced=True):
    box = {"steps": []}

    def driver(s):
        k = vnet.kernel()
        active = script.startswith("cli")
        settings = secsgem.hsms.HsmsSettings(
            connect_mode=secsgem.hsms.HsmsConnectMode.ACTIVE if active else secsgem.hsms.HsmsConnectMode.PASSIVE,
            address=ADDR[0], port=ADDR[1], t5=0.5 if script.endswith("_short_t5") else 10)
        proto = secsgem.hsms.HsmsProtocol(settings)
        box["proto"] = proto
        step = box["steps"].append

        def listening():
            lst = k.listeners.get(ADDR)
            return lst is not None and lst.state == "listening"

        def connect_peer(wait=5.0):
            s.block(listening, s.clock + wait, "wait listen")
            p = vnet.peer_connect(*ADDR)
            if p is not None:
                s.block(lambda: proto.connection_state.current.name != "NOT_CONNECTED", s.clock + 5, "wait accepted")
            return p

        def select(p):
            p.sendall(e37.control(e37.SELECT_REQ, 0x7101))
            s.block(lambda: proto.connection_state.current.name == "CONNECTED_SELECTED", s.clock + 5, "wait selected")
            return proto.connection_state.current.name == "CONNECTED_SELECTED"

        if script == "srv_enable_disable":
            proto.enable()
            step("enabled")
            proto.disable()
            step("disabled")
            proto.enable()
            step("enabled-again")
            p = connect_peer()
            step("peer-connected" if p is not None else "peer-refused")
            if p is not None:
                step("selected" if select(p) else "not-selected")
                p.close()
            proto.disable()
            step("disabled-again")
        elif script == "srv_connect_close_at_once":
            # the peer connects and closes at once (the server thread is still in its accept sequence when the connection it accepted has
            # ended and listening starts again), then comes back: it must be accepted and selected, and disable() returns
            proto.enable()
            s.block(listening, s.clock + 5, "wait listen")
            lst0 = k.listeners.get(ADDR)
            p0 = vnet.peer_connect(*ADDR)
            step("first-peer-connected" if p0 is not None else "peer-refused")
            if p0 is not None:
                p0.close()
            # a new listening socket (the one that took the first connection is closed by the library after the accept)
            s.block(lambda: k.listeners.get(ADDR) is not lst0 and listening() and proto.connection_state.current.name == "NOT_CONNECTED",
                    s.clock + 30, "wait re-listen")
            p = connect_peer(wait=30.0)
            step("peer-connected" if p is not None else "peer-refused-again")
            if p is not None:
                step("selected" if select(p) else "not-selected")
                p.close()
            proto.disable()
            step("disabled")
        elif script == "srv_connect_disable":
            proto.enable()
            p = connect_peer()
            step("peer-connected" if p is not None else "peer-refused")
            proto.disable()
            step("disabled")
            box["peer_saw_close"] = p is not None and p.peer_closed
        elif script == "srv_partial_close_reconnect":
            proto.enable()
            p = connect_peer()
            step("peer-connected" if p is not None else "peer-refused")
            if p is not None:
                select(p)
                p.sendall(e37.data(9, 1, False, 0x300, e5.enc(("B", bytes(10))))[:9])
                s.settle()
                p.close()
                step("peer-closed")
                s.block(lambda: proto.connection_state.current.name == "NOT_CONNECTED", s.clock + 10, "wait not connected")
                step("state:" + proto.connection_state.current.name)
                p2 = connect_peer(wait=10.0)
                step("peer-reconnected" if p2 is not None else "peer-refused-again")
                if p2 is not None:
                    step("selected" if select(p2) else "not-selected")
            proto.disable()
            step("disabled")
        elif script == "srv_separate_reconnect":
            proto.enable()
            p = connect_peer()
            step("peer-connected" if p is not None else "peer-refused")
            if p is not None:
                select(p)
                p.sendall(e37.control(e37.SEPARATE_REQ, 0x301))
                step("separate-sent")
                s.block(lambda: proto.connection_state.current.name == "NOT_CONNECTED", s.clock + 10, "wait not connected")
                step("state:" + proto.connection_state.current.name)
                p.close()
                p2 = connect_peer(wait=10.0)
                step("peer-reconnected" if p2 is not None else "peer-refused-again")
                if p2 is not None:
                    step("selected" if select(p2) else "not-selected")
            proto.disable()
            step("disabled")
        elif script in ("cli_no_listener_disable", "cli_no_listener_disable_short_t5"):
            proto.enable()
            step("enabled")
            s.block(lambda: False, s.clock + 3.0, "let it try")
            proto.disable()
            step("disabled")
        elif script == "cli_connect_close_disable":
            lst = vnet.peer_listen(*ADDR)
            proto.enable()
            s.block(lambda: bool(lst.accept_queue), s.clock + 30, "wait client")
            p = lst.accept_queue.popleft() if lst.accept_queue else None
            step("client-connected" if p is not None else "client-did-not-connect")
            if p is not None:
                s.block(lambda: proto.connection_state.current.name != "NOT_CONNECTED", s.clock + 5, "wait state")
                p.close()
                step("peer-closed")
                s.block(lambda: bool(lst.accept_queue), s.clock + 40, "wait reconnect")
                step("client-reconnected" if lst.accept_queue else "client-did-not-reconnect")
            proto.disable()
            step("disabled")
        s.settle()
        box["listeners"] = [a for a, l in k.listeners.items() if l.state in ("bound", "listening")]
        box["open_sockets"] = sum(1 for x in k.sockets if not x.is_peer and x.state in ("connected", "listening", "bound"))
        box["state"] = proto.connection_state.current.name

    sched = vrt.run(driver, devs, budgets, max_steps=300000, max_time=600.0, line_points=traced)
    res = {"trace": sched.trace, "v": []}
    case = {"part": "l2", "script": script}
    if sched.harness_failure or sched.driver_exception:
        res["harness"] = (sched.harness_failure or sched.driver_exception)[-1200:]
        res["obs"] = None
        return res
    steps = box["steps"]
    res["obs"] = {"outcome": sched.outcome, "steps": steps, "listeners": box.get("listeners"), "open": box.get("open_sockets")}
    if sched.outcome != "done":
        last = steps[-1] if steps else "start"
        res["v"].append((f"C09|L2|{script}|hang-after-{last}|{sched.outcome}", {"case": case, "info": sched.deadlock_info, "steps": steps,
                                                                               "thread_errors": sched.thread_errors[:3]}))
        return res
    if box.get("listeners"):
        res["v"].append((f"C09|L2|{script}|listening-socket-left-open-after-disable", {"case": case, "steps": steps}))
    if box.get("open_sockets"):
        res["v"].append((f"C09|L2|{script}|sockets-left-open-after-disable|n={box['open_sockets']}", {"case": case, "steps": steps}))
    if box.get("state") != "NOT_CONNECTED":
        res["v"].append((f"C09|L2|{script}|state-after-disable={box.get('state')}", {"case": case, "steps": steps}))
    for bad in ("peer-refused", "not-selected", "peer-refused-again", "client-did-not-connect", "client-did-not-reconnect"):
        if bad in steps:
            res["v"].append((f"C09|L2|{script}|{bad}", {"case": case, "steps": steps}))
    return res


SCRIPTS = ["srv_connect_close_at_once", "srv_enable_disable", "srv_connect_disable", "srv_partial_close_reconnect", "srv_separate_reconnect", "cli_no_listener_disable_short_t5", "cli_no_listener_disable", "cli_connect_close_disable"]


def l1_cases(thorough):
    streams = ["d9", "lt", "d9d1", "dw", "sep", "d9sep"] + (["d1ltd9", "sel_d9", "lt_lt", "sepd9"] if thorough else [])
    for state in ("NS", "SEL", "SEL_OPEN"):
        for stream in streams:
            n = len(b"".join(frames(stream)))
            for k in range(0, n + 1):
                for action in ("peer_close", "disable"):
                    yield {"state": state, "stream": stream, "k": k, "action": action, "split": None}
                    if thorough and k >= 2:
                        for j in range(1, k):
                            yield {"state": state, "stream": stream, "k": k, "action": action, "split": j}
                    elif k >= 6:
                        yield {"state": state, "stream": stream, "k": k, "action": action, "split": k // 2}


def check_case(case):
    r = run_l1({}, {}, **case)
    v = r["v"]
    if r.get("harness"):
        v = v + [("HARNESS|c09", {"case": case, "trace": r["harness"]})]
    return {"v": v, "nt": case["k"] > 0}


def run(ctx):
    ctx.assumptions += [
        "level 1 uses the in-memory LoopConnection (thread roles of TcpConnection); level 2 runs the real TcpServerConnection / "
        "TcpClientConnection over the kernel model mc/vnet.py",
        "a step 'completes' if the driver gets past it before the virtual-time horizon (600 s level 2, 3600 s level 1) and the step horizon; "
        "spin-waits are detected by repeated backward jumps",
        "level 2 explores every schedule with <= K delays where every line of tcp_*connection.py is a scheduling point; four level-1 scenarios "
        "are explored with <= 1 delay where the lines of ProtocolDispatcher and of the protocol's connect/disconnect handlers are scheduling points",
    ]
    missing = hh.trace_region(REGION_L2 + REGION_L1)
    if missing:
        ctx.note(f"not line-traced (not found): {missing}")
    k = 2 if ctx.thorough else 1
    tot = 0
    nontriv = 0
    parts = []
    for script in SCRIPTS:
        # (the connect-and-close-at-once script stays at one delay in both tiers until the finding recorded for it is repaired)
        kk = 1 if script == "srv_connect_close_at_once" else k
        st = explore.explore(ctx, run_l2, {"sched": kk}, f"c09-l2-{script}", opts={"script": script}, chunk=8)
        parts.append({"script": script, "executions": st["executions"], "outcomes": st["distinct_outcomes"], "levels_completed": st["levels_completed"],
                      "choice_points": st.get("choice_points_per_execution")})
        tot += st["executions"]
        nontriv += st["executions"] - 1
        if st["levels_completed"] < kk:
            ctx.exhaustive = False
        if ctx.out_of_time():
            break
    # one K=1 pass of a level-1 scenario family as well (schedules around the close sequence)
    for cfg in ({"state": "SEL", "stream": "d9", "k": 9, "action": "peer_close"}, {"state": "SEL_OPEN", "stream": "d9d1", "k": 20, "action": "disable"},
                {"state": "SEL", "stream": "sep", "k": 14, "action": "peer_close"}, {"state": "NS", "stream": "lt", "k": 14, "action": "disable"}):
        cfg = dict(cfg, traced=True)
        st = explore.explore(ctx, run_l1, {"sched": 1}, f"c09-l1-sched-{cfg['stream']}-{cfg['action']}", opts=cfg, chunk=8)
        parts.append({"l1_schedules": cfg, "executions": st["executions"], "outcomes": st["distinct_outcomes"]})
        tot += st["executions"]
        nontriv += st["executions"] - 1
    n = ctx.run_cases(check_case, l1_cases(ctx.thorough), "c09-l1", chunk=16)
    ctx.setcov("evaluations", tot + n)
    ctx.setcov("distinct_nontrivial", nontriv + len(ctx._nontrivial))
    ctx.setcov("rule", "level 1: session state x stream x every byte offset x {peer close, disable} (x every 2-segment split thorough), each followed "
                       "by reconnect + select + first message; level 2: 8 enable/disable/connect/close/separate scripts (one with a connect separation time-out below one second) x every schedule with <= K delays; "
                       "non-trivial = offset > 0 (a partial or complete frame was delivered before the loss) or a schedule with >= 1 delay")
    ctx.setcov("delay_bound_level2", k)
    ctx.setcov("parts", parts)


def replay(ctx, detail):
    case = dict(detail["case"])
    part = case.pop("part", "l1")
    devs = {int(k): v for k, v in case.pop("devs", {}).items()}
    budgets = case.pop("budgets", {})
    for extra in ("driver", "opts"):
        case.pop(extra, None)
    if part == "l2":
        hh.trace_region(REGION_L2 + REGION_L1)  # the same scheduling points as in run(): a choice index means the same point
        r = run_l2(devs, budgets, script=case["script"])
    else:
        if case.get("traced"):
            hh.trace_region(REGION_L1)
        r = run_l1(devs, budgets, **case)
    print("replayed:", r.get("obs"))
    ctx.evaluations += 1
    for sig, d in r["v"]:
        ctx.violation(sig, d)
