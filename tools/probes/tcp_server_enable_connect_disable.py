import sys, socket, threading, time, faulthandler
sys.path.insert(0, '/repo')
import secsgem.hsms
port=50333
st=secsgem.hsms.HsmsSettings(connect_mode=secsgem.hsms.HsmsConnectMode.PASSIVE, address="127.0.0.1", port=port)
p=secsgem.hsms.HsmsProtocol(st)
for i in range(200):
    p.enable()
    time.sleep(0.02)
    s=socket.socket(); s.settimeout(2)
    s.connect(("127.0.0.1",port))
    time.sleep(0.0005*(i%5))
    t=threading.Thread(target=p.disable, name="DISABLER"); t.start(); t.join(5)
    if t.is_alive():
        print(i,"disable hangs", flush=True)
        faulthandler.dump_traceback(all_threads=True)
        break
    s.close()
else:
    print("no hang in 200")
import os; os._exit(0)
