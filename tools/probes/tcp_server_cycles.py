import sys, socket, threading, time, logging
sys.path.insert(0, '/repo')
import secsgem.hsms
errs=[]
class H(logging.Handler):
    def emit(self, rec):
        if rec.levelno>=logging.WARNING: errs.append(rec.getMessage()[:150])
logging.getLogger().addHandler(H())
old_hook=threading.excepthook
def hook(a): errs.append("THREAD EXC "+repr(a.exc_value)[:150]+" in "+a.thread.name)
threading.excepthook=hook
port=50321
st=secsgem.hsms.HsmsSettings(connect_mode=secsgem.hsms.HsmsConnectMode.PASSIVE, address="127.0.0.1", port=port)
p=secsgem.hsms.HsmsProtocol(st)
bad=0
for i in range(30):
    p.enable()
    time.sleep(0.05)
    s=socket.socket(); s.settimeout(2)
    try:
        s.connect(("127.0.0.1",port))
    except Exception as e:
        print(i,"connect failed",e); bad+=1
    if i%3==0:
        pass
    elif i%3==1:
        time.sleep(0.001)
    else:
        s.close()
    t=threading.Thread(target=p.disable); t.start(); t.join(10)
    if t.is_alive(): print(i,"disable hangs"); bad+=1; break
    try: s.close()
    except Exception: pass
# reconnect immediately after close, repeatedly, while enabled
p.enable(); time.sleep(0.1)
ok=0
for i in range(30):
    s=socket.socket(); s.settimeout(2)
    try:
        s.connect(("127.0.0.1",port))
        s.sendall(bytes([0,0,0,10,0xff,0xff,0,0,0,1,0,0,0,i+1]))
        r=s.recv(14)
        if len(r)==14 and r[9]==2: ok+=1
        else: print(i,"no select.rsp",r)
    except Exception as e:
        print(i,"reconnect failed",repr(e))
    s.close()
print("selected", ok, "of 30")
t=threading.Thread(target=p.disable); t.start(); t.join(10); print("final disable hangs" if t.is_alive() else "final disable ok")
print("bad",bad); print(set(errs))
