#!/bin/bash
# usage: [CHECKS="C01 C05"] tools/runall.sh [tier] [seed]   - runs every check of MANIFEST.json, prints one line each
cd "$(dirname "$0")/.."
tier=${1:-quick}; seed=${2:-0}
for c in ${CHECKS:-C01 C02 C03 C04 C05 C06 C07 C08 C09 C10 C11 C12 C13 C14 C15 C16 C17 C18 C19 C20}; do
  start=$(date +%s)
  out=$(VERIF_SEED=$seed PYTHONHASHSEED=0 timeout 3600 /venv/bin/python run.py $c --tier $tier 2>&1)
  rc=$?
  echo "$c rc=$rc $(( $(date +%s) - start ))s | $(echo "$out" | grep -E "^$c tier" | cut -c1-150) $(echo "$out" | grep -c '^VIOLATION') viol $(echo "$out" | grep -c 'HARNESS-ERROR') harness"
done
