#!/venv/bin/python
"""Confirm a seeded defect produced by a sub-agent and run our checks against it.

  evalseed.py <worktree> <seed dir name> <property id> [--checks C05,C06] [--tier quick] [--no-tests] [--save <id>]

Steps (all in the scratch worktree, which is left clean):
  1. patch applies; 2. the repository's test-suite passes with it; 3. demo.py fails with it and passes without it;
  4. the named checks (default: the property's own) are run against a scratch copy with the patch (tools/trymut.py), seeds 0,1,2;
  5. with --save the seed is copied to /verif/seeded/<id>/ with meta.json recording all of the above.
"""
import argparse
import json
import os
import shutil
import subprocess
import sys
import time

VERIF = os.path.dirname(os.path.dirname(os.path.abspath(__file__)))


def sh(cmd, cwd=None, timeout=1200):
    try:
        r = subprocess.run(cmd, cwd=cwd, capture_output=True, text=True, timeout=timeout)
        return r.returncode, r.stdout, r.stderr
    except subprocess.TimeoutExpired as exc:
        return 124, (exc.stdout or b"").decode() if isinstance(exc.stdout, bytes) else (exc.stdout or ""), "TIMEOUT"


def main():
    ap = argparse.ArgumentParser()
    ap.add_argument("wt")
    ap.add_argument("seed")
    ap.add_argument("prop")
    ap.add_argument("--checks")
    ap.add_argument("--tier", default="quick")
    ap.add_argument("--no-tests", action="store_true")
    ap.add_argument("--save")
    ap.add_argument("--seeds", default="0,1,2")
    a = ap.parse_args()
    wt, sd = a.wt, os.path.join(a.wt, a.seed)
    patch = os.path.join(sd, "patch.diff")
    demo = os.path.join(sd, "demo.py")
    meta = {"property": a.prop, "source": "independent sub-agent (property text + scratch worktree only)", "confirmed": {}, "detection": {}}
    sh(["git", "-C", wt, "checkout", "--", "secsgem"])
    rc, out, err = sh(["git", "-C", wt, "apply", "--check", patch])
    meta["confirmed"]["patch_applies"] = rc == 0
    if rc != 0:
        print("PATCH DOES NOT APPLY", err[:300])
        print(json.dumps(meta))
        return 1
    # demo without patch
    rc0, out0, _ = sh(["/venv/bin/python", demo], cwd=wt, timeout=180)
    meta["confirmed"]["demo_without_patch"] = {"exit": rc0, "tail": out0.strip().splitlines()[-1:] }
    sh(["git", "-C", wt, "apply", patch])
    rc1, out1, _ = sh(["/venv/bin/python", demo], cwd=wt, timeout=180)
    meta["confirmed"]["demo_with_patch"] = {"exit": rc1, "tail": out1.strip().splitlines()[-1:]}
    if not a.no_tests:
        t0 = time.time()
        rct, outt, errt = sh(["/venv/bin/python", "-m", "pytest", "-q", "-p", "no:cacheprovider", "--timeout=120", "-x", "-q", "--no-cov"], cwd=wt, timeout=1200)
        meta["confirmed"]["test_suite_with_patch"] = {"exit": rct, "tail": outt.strip().splitlines()[-1:], "wall_s": round(time.time() - t0)}
    sh(["git", "-C", wt, "checkout", "--", "secsgem"])
    ok = rc0 == 0 and rc1 != 0 and (a.no_tests or meta["confirmed"]["test_suite_with_patch"]["exit"] == 0)
    meta["confirmed"]["all"] = ok
    print(f"confirmed={ok} demo {rc0}->{rc1} tests={meta['confirmed'].get('test_suite_with_patch', {}).get('exit')}")
    checks = (a.checks or a.prop).split(",")
    rc, out, err = sh(["/venv/bin/python", os.path.join(VERIF, "tools", "trymut.py"), "--patch", patch, "--tier", a.tier, "--seeds", a.seeds] + checks,
                      cwd=VERIF, timeout=3600)
    print(out.strip())
    for ln in out.splitlines():
        if ":" in ln and ln.split()[0] in checks:
            chk = ln.split()[0]
            meta["detection"].setdefault(chk, []).append(ln.split(":", 1)[1].strip()[:300])
    if a.save:
        dst = os.path.join(VERIF, "seeded", a.save)
        os.makedirs(dst, exist_ok=True)
        for f in os.listdir(sd):
            if os.path.isfile(os.path.join(sd, f)) and os.path.getsize(os.path.join(sd, f)) < 200000:
                shutil.copy(os.path.join(sd, f), os.path.join(dst, f))
        notes = os.path.join(sd, "notes.md")
        meta["needs_to_manifest"] = open(notes).read()[:1500] if os.path.exists(notes) else ""
        meta["ran"] = {"tests": "cd <worktree> && /venv/bin/python -m pytest -q -p no:cacheprovider --timeout=120 -x -q --no-cov",
                       "demo": "cd <worktree> && /venv/bin/python seedN/demo.py (exit 0 / PASS without the patch, exit 1 / FAIL with it)",
                       "checks": f"tools/trymut.py --patch patch.diff --tier {a.tier} --seeds {a.seeds} {' '.join(checks)}"}
        with open(os.path.join(dst, "meta.json"), "w") as f:
            json.dump(meta, f, indent=1)
    return 0


if __name__ == "__main__":
    sys.exit(main())
