#!/venv/bin/python
"""Regenerate /verif/MANIFEST.json from the table below and validate it against the schema."""
import json
import os
import subprocess

HERE = os.path.dirname(os.path.dirname(os.path.abspath(__file__)))

PY = "PYTHONHASHSEED=0 /venv/bin/python run.py"

CHECKS = {
    # id: (category, engine, technique, text, note, design_ref)
    "C01": ("exploration", "enum", "bounded-exhaustive input enumeration against an independent E5 reference codec",
            "Every typed value of a boundary-set family (all 14 leaf types x element counts at every length-byte boundary and one with three pairwise "
            "different length bytes x boundary values x "
            "constructor input forms, all 256 byte values of text/binary, every float exponent x boundary mantissas, all list trees up to the "
            "stated depth/branching) is encoded by the real variables API and compared byte for byte with an independent E5 encoder; the bytes "
            "are decoded into fresh and reused objects and at an offset, and position and value compared. Exhaustive over the stated family, "
            "small-scope outside it. Every character U+0000..U+02FF (+ katakana, yen, overline) as a one-character str for A and J must round "
            "trip when accepted; a refused set()/decode() must leave the object unchanged. Thread-pair independence: every ordered pair of a small operation alphabet runs on two threads with separate objects under every schedule with <= 1 (2) delays where every source line of secsgem.secs.* is a scheduling point; each thread must get the result it gets alone. First use: every ordered pair of two (thorough: three) operations as the first two operations of a pristine process - one forked child per execution, every schedule with <= 1 (thorough 2) delays at line granularity, lazy imports atomic - must give each thread the result the operation gives alone in a pristine process.",
            "Trusts /verif/ref/e5.py (written from the E5 format, no secsgem import) and Python's struct for IEEE-754; values outside the "
            "boundary families are covered only by the small-scope hypothesis.", "DESIGN.md 3/C01"),
    "C02": ("exploration", "enum", "bounded-exhaustive enumeration of reference-encoded (canonical and non-canonical) E5 items",
            "Byte strings are produced by the independent reference encoder, including every assignment of 1/2/3 length bytes to every node "
            "of every tree of the family, every finite float exponent x boundary mantissas, and every catalogue data item x every format "
            "code it allows; the real decoder's value, consumed length and canonical re-encoding are compared with the reference on each, into fresh objects and "
            "into objects that already decoded something else (typed, ANYVALUE, Array); all 256 byte values of a BOOLEAN item; an empty item of "
            "every type followed by another item. Thread-pair independence: every ordered pair of a small operation alphabet runs on two threads with separate objects under every schedule with <= 1 (2) delays where every source line of secsgem.secs.* is a scheduling point; each thread must get the result it gets alone. First use: every ordered pair of two (thorough: three) operations as the first two operations of a pristine process - one forked child per execution, every schedule with <= 1 (thorough 2) delays at line granularity, lazy imports atomic - must give each thread the result the operation gives alone in a pristine process.",
            "Trusts ref/e5.py; byte strings the reference decoder rejects are out of scope; JIS-8 only through the JIS8 class.",
            "DESIGN.md 3/C02"),
    "C14": ("exploration", "enum", "bounded-exhaustive input enumeration of the Item API against the reference codec and the variables API",
            "Every value of the C01 families is pushed through Item(value) in every constructor input form (value held, bytes equal to the "
            "reference and to the variables API), Item.decode over every assignment of length bytes (canonical re-encode, class, value), and "
            "Item.from_value over every integer at +-1 around every power of two up to 2^65 (after converting equal-valued floats/bools first) and "
            "structured python values (narrowest type); the caller's list is changed after an ItemL was built from it. Thread-pair independence: every ordered pair of a small operation alphabet runs on two threads with separate objects under every schedule with <= 1 (2) delays where every source line of secsgem.secs.* is a scheduling point; each thread must get the result it gets alone. First use: every ordered pair of two (thorough: three) operations as the first two operations of a pristine process - one forked child per execution, every schedule with <= 1 (thorough 2) delays at line granularity, lazy imports atomic - must give each thread the result the operation gives alone in a pristine process.",
            "Trusts ref/e5.py; floats excluded from the from_value type oracle (statement lists bool/int/str/bytes/list).", "DESIGN.md 3/C14"),
    "C05": ("model_checking", "vrt+hbfs", "explicit-state history BFS on the real HsmsProtocol + delay-bounded schedule exploration of the accept race",
            "Every history over a 22-event alphabet (connect, peer close, enable/disable, all control messages with matching/alien system "
            "bytes and status 0/1, data with/without W, local requests, timer expiry) up to the exhaustive depth, then BFS over canonical "
            "states to the depth bound, is executed on a fresh real HsmsProtocol (active and passive) under the virtual runtime and compared "
            "after every event with the E37 reference session model (state, exactly-one responses with echoed system bytes, Reject reason 4, "
            "delivery in SELECTED only; a data message queued behind a Separate.req in one segment is never delivered and answers nothing on the next "
            "connection). The accept race (Select.req / Select.rsp in flight while the connection is being accepted) is "
            "explored over all schedules with <= K delays at line granularity.",
            "LoopConnection models TcpConnection's thread roles; T7/T8 not modelled; histories run under the default schedule (settle after each event); "
            "bounded depth, state space not closed because periodic timers make remaining-time part of the state.", "DESIGN.md 3/C05"),
    "C06": ("model_checking", "vrt+explore", "stateless delay-bounded schedule exploration (line-level scheduling points) of the real HsmsProtocol",
            "A closed driver (2-3 application threads calling send_and_waitfor_response, a peer thread whose reply behaviour is an enumerated "
            "environment choice: now / after the other's / after T3 / never, two unsolicited primaries, optionally a reconnect first, counter "
            "at 0 and at the 2^32 wrap) is run for every schedule with <= K delays and <= E non-default peer answers; each execution is checked: "
            "distinct system bytes, every caller gets exactly its own reply or None iff none arrived in time, unsolicited primaries delivered "
            "once, serially, in order - including primaries of the peer that reuse the system bytes of this side's finished (answered or "
            "timed-out) requests; in one configuration a single write may fail (environment deviation) and only its own caller may see a failure.",
            "A source line of the listed racy region is the atom of interleaving; bounded by K and E (levels completed are in the evidence).",
            "DESIGN.md 3/C06"),
    "C07": ("model_checking", "vrt+hbfs", "explicit-state history BFS on real GEM handlers with trace invariants + delay-bounded schedule exploration of S1F14 vs link loss / T3",
            "Every history over {enable, disable, link selected, link lost, inbound S1F13, S1F14 with COMMACK 0/1/empty/missing and latest/stale/alien system "
            "bytes, S1F1, a user-callback primary, timer expiry} up to the exhaustive depth, then BFS over canonical states, is executed on "
            "fresh real GemHostHandler and GemEquipmentHandler objects (real HsmsProtocol underneath). Invariants: COMMUNICATING only after a "
            "completed S1F13/S1F14 exchange with COMMACK 0 on the current link (and a valid exchange does establish), link loss/disable leave "
            "it, no callback runs while not communicating, from every reached state a retry S1F13 appears within T3 + delay (bounded "
            "liveness probe in virtual time), and no retry is sent before previous-attempt-failure + delay; run in two timer configurations "
            "(T3 > delay, and 2 x T3 < delay so that timers of abandoned attempts can still be pending; a third one starts the transaction counter at 2^32 - 1). The accepting S1F14 is raced against "
            "link loss and against T3 expiry under every schedule with <= 2 (3) delays at line granularity of the state-machine engine.",
            "Default schedule per event; virtual timers fire only through the explicit tick event; a stale S1F14 of the same link may or may not establish.",
            "DESIGN.md 3/C07"),
    "C08": ("model_checking", "vrt+hbfs", "exhaustive enumeration of inbound message headers/bodies and short histories executed on real handlers + delay-bounded schedule exploration of the reply path",
            "Real host and equipment handlers are driven to COMMUNICATING under the virtual runtime; every stream x function x W header "
            "(boundary function set quick, all 65 536 thorough), every catalogued function with well-formed/truncated/wrong-type/trailing bodies "
            "(forward and reverse order) and user callbacks that reply / raise / return None are injected; the frames written are parsed by the "
            "reference codec: exactly one reply with the request's system bytes (function+1 or F0 abort), S9F5 with the exact header for "
            "functions without callback, nothing for W=0. Histories in which the handler's own requests were answered or timed out first and the "
            "peer's primary reuses their system bytes, and 1-3 primaries under every schedule with <= 2 (3) delays at line granularity of the "
            "dispatcher / send path, must give the same answer. Also: register / use / unregister / use / register / use of a callback, and bodies whose n-th leaf is wrapped in "
            "1500 lists (deeper than the interpreter's recursion limit).",
            "Reply bodies are not constrained beyond S9F5's MHEAD; histories are batches of up to 128 messages per fresh handler.",
            "DESIGN.md 3/C08"),
    "C11": ("model_checking", "vrt+hbfs", "explicit-state history BFS on a real GemEquipmentHandler per configuration + delay-bounded schedule exploration of host request vs operator switch",
            "For each of up to 48 configurations (4 initial control states x LOCAL/REMOTE x host answers the attempt-online probe with "
            "S1F2 / S1F0 / not at all x control-state events linked+enabled or not) every history of operator switches, S1F15, S1F17, S1F3[1002] "
            "and probe time-out up to the exhaustive depth, then BFS over canonical states, runs on a fresh real handler in COMMUNICATING; "
            "state, S1F16/S1F18 acknowledge codes, emitted S6F11 CEIDs and SVID 1002 are compared with the E30 reference table after every event. "
            "Six pairs (S1F15/S1F17 on the dispatcher thread x an operator switch on an application thread) are explored under every schedule with "
            "<= 1 (2) delays at line granularity of the state-machine engine: state, acknowledge code, operator outcome and the multiset of reported collection events must be those of one "
            "of the two serial orders.",
            "Attempt-online failure may land in HOST or EQUIPMENT OFF-LINE; default schedule; quick tier drops the events-off x non-answering-host configurations.",
            "DESIGN.md 3/C11"),
    "C12": ("model_checking", "vrt+hbfs", "explicit-state history BFS with a reference table model and per-state probes + delay-bounded schedule exploration of request vs trigger",
            "Every history over the S2F33/S2F35/S2F37 request alphabet (define, delete-one, delete-all, link, unlink, duplicates, unknown ids, "
            "partially bad requests) and variable updates is run on a fresh real equipment handler; after every step the public tables are "
            "compared with the reference (refused => unchanged, accepted => exact E5 effect), every link must point to a defined report, and "
            "S6F15 plus a trigger for every CEID of the domain must yield well-formed S6F16/S6F11 with exactly the linked reports in link "
            "order and current values (decoded by the reference codec). Seven configuration requests (dispatcher thread) are raced against "
            "trigger_collection_events([1, 2]) (application thread) under every schedule with <= 2 (3) delays at line granularity of the "
            "capability: each event at most once, reports = configuration before or after, untouched events exactly once, no thread dies. (S2F33 with two delete-one entries is in the alphabet.) Text report ids with the digits of a numeric one "
            "(define / delete / link) are in the alphabet; set_alarm / clear_alarm with AlarmsSet linked to the alarm's own collection event is explored under every "
            "schedule with <= 2 (3) delays: the one S6F11 must show the alarm in its new state.",
            "Requests E5 leaves ambiguous are held to the integrity and transactional clauses only; small id domains (2 reports, 3 variables, 3 events).",
            "DESIGN.md 3/C12"),
    "C13": ("model_checking", "vrt+hbfs", "explicit-state history BFS with a plain-dict reference model and 49 queries per state + delay-bounded schedule exploration of S5F3 vs alarm change",
            "Every history over S2F15 (in-range, boundary, out-of-range, zero limits at either end, multi-constant, unknown, repeated), S5F3, set/clear alarm (S5F2 answered or lost) and value "
            "updates runs on a fresh real equipment handler; after every step S1F3/S1F11/S2F13/S2F29/S5F5/S5F7 with known, unknown, repeated, "
            "numeric and text id lists are sent and each reply is decoded by the reference codec and compared item by item (order, values, "
            "empty item for unknown ids, alarm set bit); S2F15 must be all-or-nothing and within limits; S5F1 exactly on changes of enabled alarms. S5F3 is raced against set_alarm / clear_alarm "
            "under every schedule with <= 2 (3) delays at line granularity of the alarm capability. An id item holding two numbers must be answered as an unknown id (S1F3, S2F13).",
            "Clock excluded from value comparison; unknown ALIDs in S5F5 not in the alphabet; canonical state = every plain attribute of the alarm and constant objects.", "DESIGN.md 3/C13"),
    "C15": ("exploration", "enum", "bounded-exhaustive enumeration of items and of token strings against a reference SML recogniser",
            "Round trip Item.from_sml(item.to_sml()) over the C14 leaf families, all 256 single bytes and every string up to length 3 (4 thorough) "
            "over an 18-character awkward alphabet for A and J, float exponent sweeps and all list trees to the bound; every token string up to "
            "length 5 (6 thorough) over a 12-token alphabet and every single-token deletion/insertion/replacement of valid texts is parsed under a "
            "watchdog: the parser must terminate and must raise whenever the reference recogniser finds a missing closing bracket or an unknown type; "
            "every single-character deletion, quote insertion and proper prefix of the valid texts must terminate. Thread-pair independence: every ordered pair of a small operation alphabet runs on two threads with separate objects under every schedule with <= 1 (2) delays where every source line of secsgem.secs.* is a scheduling point; each thread must get the result it gets alone.",
            "Rejection is demanded only for the two defects the statement names; watchdog is 5 s wall-clock per parse.", "DESIGN.md 3/C15"),
    "C16": ("exploration", "enum", "bounded-exhaustive enumeration against an independent E4 block codec, all merges, all single-byte corruptions",
            "Body lengths at every 244-byte boundary (0,1,2,243..245,487..489,732, 255 blocks, 32 767 blocks thorough) x header fields at 1 (2) "
            "deviations: blocks compared byte for byte with ref/e4.py and decoded back field by field; every interleaving of the block sequences of "
            "2-3 messages with distinct system bytes is fed to the reassembly of a real SecsIProtocol (exactly-once, header, body), also with one protocol object per message and equal "
            "system bytes; every byte "
            "position x every other value of encoded blocks with 0/1/244 data bytes (checksum above and below 0x100) and every other 16-bit value "
            "of the checksum field must never decode to a valid block.",
            "Reassembly is driven through Protocol._dispatch_block (the receiver thread's seam); blocks of one message stay in order.", "DESIGN.md 3/C16"),
    "C03": ("exploration", "enum", "bounded-exhaustive enumeration of structure-conforming values per catalogued function + complete catalogue relation check",
            "For all catalogued functions the structure is read by an independent SFDL reader; the default value and every value at one "
            "deviation (two thorough) - open list lengths 0/2/3, each allowed alternative type of each dynamic leaf as typed variable (bytes "
            "compared with the reference codec) and as plain python value (read back unchanged), count limits - is built, encoded, wrapped in "
            "a message carrying only S/F and decoded through StreamsFunctions.decode (same class, equal value, same bytes). The YAML "
            "catalogue vs class attributes, F/F+1 pairing, reply flags, mirrored directions and the lookup of all 128x256 numbers are enumerated completely; the flags of a constructed function object "
            "(the ones the protocol layers read) are compared with the declaration; for every function, update() of one container must leave older "
            "and newer default containers on the catalogue class, and a look-up made before update() must not hide it afterwards; a value set into a used function object must encode like a fresh one. Thread-pair independence: every ordered pair of a small operation alphabet runs on two threads with separate objects under every schedule with <= 1 (2) delays where every source line of the catalogue, SFDL reader and container modules is a scheduling point; each thread must get the result it gets alone.",
            "Values beyond one/two deviations from the default are covered by the small-scope hypothesis; over-long values are observed, not demanded to be rejected.",
            "DESIGN.md 3/C03"),
    "C19": ("exploration", "enum", "bounded-exhaustive enumeration of definition trees against an independent reader of the documented rules",
            "Every definition tree up to depth 3 / width 3 (bounded child pools) over four data item names with optional list names is rendered in "
            "2-4 whitespace styles and with a comment at every line end; shape (record / open array / item), key order and key names of "
            "functions.generate(text) are compared with ref/sfdl.py; every closing bracket deleted or replaced by an opening one and every item name replaced by an unknown one "
            "must be rejected; the second element generated from an array's kept description must have the shape of the first; the shipped "
            "definitions are checked the same way. Thread-pair independence: every ordered pair of a small operation alphabet runs on two threads with separate objects under every schedule with <= 1 (2) delays where every source line of secsgem.secs.* is a scheduling point; each thread must get the result it gets alone.",
            "Sibling keys kept distinct; an unnamed list around a single named list, empty lists and trailing text are not generated (undocumented).",
            "DESIGN.md 3/C19"),
    "C04": ("model_checking", "vrt+explore", "exhaustive enumeration of cut sets of frame streams on the real HsmsProtocol + delay-bounded schedule exploration; frame fields vs independent codec",
            "Frames: header field boundary sets (1 and 2 deviations) x all nine STypes x body lengths at 255/256/65535/65536 (2^20 thorough) compared "
            "byte for byte with ref/e37.py and decoded back. Streams: 12 sequences of 1-3 frames are fed to a real SELECTED HsmsProtocol for every "
            "set of <= 2 (3) cut positions, the all-single-bytes partition and all 2^13 partitions of a 14-byte frame; deliveries and control "
            "replies must equal those of the uncut stream. Coalesced arrival is explored over all schedules with <= K delays at line granularity. "
            "A real ByteQueue alone (one producer, one consumer framing like the HSMS and SECS-I receivers) is explored under every schedule with "
            "<= 2 (3) delays where every bytecode instruction of ByteQueue is a scheduling point. Outbound: for packet sizes 5/16/64 every frame "
            "size up to 3 packets + 2 and, for the shipped 1 MiB, sizes around 1 (2, 3) MiB, the bytes given to send_data equal the reference frame. "
            "Streams are also fed after an earlier connection of the same object ended inside a frame (8 offsets), to two protocol objects side by "
            "side, and while the connection is still being accepted (<= K delays).",
            "LoopConnection delivers segments from its receiver thread like TcpConnection (<=1024-byte reads); stepwise mode uses the default schedule.",
            "DESIGN.md 3/C04"),
    "C18": ("model_checking", "vrt+explore", "explicit-state search over generated machine definitions x transition sequences + delay-bounded schedule exploration of concurrent triggers",
            "Programs: every machine with <= 3 (4) states in every forest of depth <= 2, 1-3 transitions with every source set/destination among "
            "leaves and optionally one enter handler requesting a transition, plus the three shipped machines (control in all 8 configurations): BFS "
            "over transition-name sequences to closure against the reference semantics (refused => raises, nothing changes; destination; active "
            "set = current + ancestors; called once; enter/leave balanced). The shipped machines are driven through their public wrapper methods and every plain attribute of the machine object counts as state. "
            "Concurrency: for every reachable state of the shipped machines and every "
            "pair of transitions allowed there, two threads request them under every schedule with <= K delays (lines of state_machine.py); the "
            "outcome must equal one of the two sequential orders.",
            "Internal vs external transition semantics both accepted; handler exceptions other than the engine's own are not in scope.", "DESIGN.md 3/C18"),
    "C09": ("fault_enumeration", "vrt+explore", "exhaustive enumeration of loss points (every byte offset) on the real protocol + delay-bounded schedule exploration of the real TCP connection classes over a kernel model",
            "Level 1: for each session state (NOT SELECTED, SELECTED, SELECTED with an open transaction) x inbound stream (data, linktest, Separate.req and mixtures) x every byte offset (x every "
            "two-segment split thorough) the prefix is delivered to a real HsmsProtocol, then the peer closes or disable() is called; then a new "
            "connection must select and deliver its first message; any step that does not complete in virtual time is a deadlock/livelock verdict of "
            "the runtime. Level 2: the real TcpServerConnection/TcpClientConnection run over a virtual kernel; six enable/disable/connect/close/Separate.req "
            "scripts are explored under every schedule with <= K delays (every line of tcp_*connection.py is a scheduling point): enable()/disable() "
            "return, no socket is left open, a later enable() works. Four level-1 scenarios are also explored with <= 1 delay at every line of "
            "ProtocolDispatcher and of the protocol's connect/disconnect handlers. The kernel model keeps the listening port in TIME_WAIT after the endpoint closed an accepted "
            "connection first (bind then needs SO_REUSEADDR set before it; checked against real loopback sockets by mc/vnet_conformance.py).",
            "The kernel is a model (mc/vnet.py); hangs are detected up to the step and virtual-time horizons; spin-waits via repeated backward jumps.",
            "DESIGN.md 3/C09"),
    "C10": ("fault_enumeration", "vrt+explore", "exhaustive enumeration of environment answers (short write / would-block / broken pipe / not writable) up to F deviations",
            "The real TcpConnection.send_data (server and client class) and HsmsProtocol's 1 MiB packet split above it write to a virtual socket; "
            "every assignment of answers with <= F deviations from 'everything accepted' is executed for message sizes 1 byte .. 2 MiB+5 and 1-2 "
            "sends; the bytes the peer received must parse as the messages in order, complete where success was reported, a prefix where failure was "
            "(decided by backtracking over prefix lengths), and the call must return a bool. A further answer - one byte accepted while the peer "
            "half-closes - is explored together with one scheduling delay (the receiver thread closes the socket under the sender). "
            "Reconnect scenario: after any outcome of the first send the peer drops the connection and comes back; the next send over the new "
            "connection of the same object is judged on its own (nothing of the earlier message may appear). A slow peer with a small receive "
            "buffer reads only after the library closed the connection: everything reported as sent must still arrive. Twin-sender scenario: the peer "
            "drops connection 1 and returns at once (threads of the old connection still winding down), then two application threads send one "
            "message each over connection 2 while the socket takes single bytes / reports not writable: every schedule with <= 2 (3) delays x <= 2 "
            "environment answers; each message must stand in the stream in one piece, in either order.",
            "Kernel answers are a model; F = 2 quick / 3 thorough deviations per execution.", "DESIGN.md 3/C10, 7.7"),
    "C17": ("model_checking", "vrt+explore", "stateless delay- and cut-bounded exploration of two real SecsIProtocol endpoints on a virtual line + exhaustive corruption positions",
            "Two real SecsIProtocol objects (host, equipment) joined by an in-memory line; a message of 1-3 blocks is sent, answered by the other "
            "side and followed by another; every schedule with <= K delays (lines of the handshake code, byte queue and dispatcher) and <= C "
            "chunking deviations per execution, the all-single-bytes chunking (also paced: each chunk arrives while the receiver already waits), "
            "and one corrupted byte at every header/data/checksum position "
            "of a block are executed. Oracle: transcript grammar (ENQ, EOT, block, ACK|NAK), success => delivered once with identical header and "
            "body, corrupted => NAK, not delivered, failure reported, following messages still pass, nothing hangs. Also: bodies of catalogued functions that are not "
            "complete SECS-II items, bodies that are exact "
            "multiples of 244, a second sender thread on the same side (alternating blocks), a NAKed block against the sender's wake-up "
            "(<= K delays), two senders drawing their system bytes from the protocol's counter, and the same message sent again after a failed attempt.",
            "Only one side transmits at a time (the statement's assumption); length-byte corruption is a recorded known finding (no T1/T2).",
            "DESIGN.md 3/C17"),
    "C20": ("model_checking", "vrt+explore", "stateless delay- and cut-bounded exploration of two real GEM handlers joined by a virtual link",
            "A real GemHostHandler and a real GemEquipmentHandler (each on a real HsmsProtocol) are joined by an in-memory link; for every "
            "configuration (active side x enable order x equipment initial control state) the script - both reach COMMUNICATING within "
            "T5+T6+2(T3+delay) virtual seconds, eleven host service calls compared with the equipment's own tables, subscribe + trigger => exactly "
            "one collection_event_received, clear all + subscribe again with a new report + trigger, a refused two-constant S2F15 (nothing changed), go offline/online, remote command, restart of the host, restart of the equipment, all again - is "
            "executed for every assignment of <= 1 segment cut; the start-up handshake (and one services phase, thorough: the full script) is "
            "explored under every schedule with <= 1 delay at the runtime's operations and at every line of the waiter registration "
            "(GemHandler.waitfor_communicating / _on_state_communicating). Mid-flight phase: on a paced link either side is disabled while a cut "
            "message to it is half delivered, re-enabled, and everything must hold again. The full script (default schedule) and the handshake "
            "(<= 1 delay) also run with both handlers on the real TcpClientConnection / TcpServerConnection over the kernel model.",
            "Link connect latency is zero; line-level scheduling points only in the waiter registration (13+ threads); K = 1; no segment cuts on the TCP variant.", "DESIGN.md 3/C20"),
}

NOT_YET = "check not built yet in this revision of /verif (see DESIGN.md section 6 build order)"

ALL = [f"C{i:02d}" for i in range(1, 21)]


# additions of later sessions, appended to the description of the check (DESIGN.md 7.7)
EXTRA = {
    "C01": " Session 5: list targets on their second use (array / anyvalue / nested record decode a second message into the same object).",
    "C05": " Session 5: request vs link loss - a Select / Deselect / Linktest / data request directly followed by the peer's close under every "
           "schedule with <= 2 (3) delays; the closed connection ends NOT CONNECTED, the next one starts NOT SELECTED and can be selected.",
    "C06": " Session 5: a reply written at the very instant of the caller's T3 time-out, followed by a second round (one more request after every "
           "transaction is over must get its own reply).",
    "C12": " Session 5: the canonical state contains every container attribute of the handler; a second search starts from a working configuration "
           "(report linked, enabled, reported once) with delete / redefine / relink events to depth 3 + 6 (3 + 7).",
    "C09": " Session 5: script srv_connect_close_at_once (peer connects and closes at once, returns, selects, disable) at K = 1 - reports a known "
           "finding on the pinned tree (disable() never returns; known_findings.json, replays under /verif/findings).",
    "C14": " Session 5: all 256 byte values of a BOOLEAN item through Item.decode (alone, array, two length bytes, in a list).",
    "C15": " Session 5: all A / J / B single-byte items rendered and parsed back one after the other in one process, four orders (history kept in caches).",
    "C19": " Session 5: comments that swallow the following line, read right after the text they equal up to white space; list names that coincide "
           "with the library's own words (DATA, NAME, VALUE).",
    "C20": " Session 5: the equipment triggers the event the moment it is enabled while the host is still inside subscribe_collection_event "
           "(<= 2 (3) delays); two reports on one event before 'drop every subscription'.",
}


def main():
    checks = []
    for pid in ALL:
        if pid not in CHECKS:
            continue
        cat, engine, technique, text, note, ref = CHECKS[pid]
        text += EXTRA.get(pid, "")
        checks.append({
            "property_id": pid,
            "quick_cmd": f"{PY} {pid} --tier quick",
            "thorough_cmd": f"{PY} {pid} --tier thorough",
            "evidence_file": f"/verif/evidence/{pid}.json",
            "replay_cmd_template": f"{PY} {pid} --replay {{path}}",
            "engine": engine,
            "level_claimed": {"category": cat, "text": text, "design_ref": ref},
            "level_note": note,
            "technique": technique,
        })
    manifest = {
        "version": 1,
        "setup_cmd": "PYTHONHASHSEED=0 /venv/bin/python run.py selftest",
        "hooks": {
            "guard": "SECSGEM_VERIF",
            "enable": "no source hooks are needed: mc/loader.py imports /repo's working tree and rebinds the stdlib modules "
                      "(threading, queue, time, select, socket, serial, random) inside secsgem's modules to the virtual runtime; "
                      "the variable SECSGEM_VERIF=1 is set by the loader but read by nothing in /repo",
            "baseline_off_cmd": "cd /repo && /venv/bin/python -m pytest -ra -q -p no:cacheprovider --timeout=900 --continue-on-collection-errors",
            "source_commits": [],
            "add_only": True,
        },
        "engines": [
            {"name": "enum", "path": "/verif/mc/gen.py", "serves_properties": ["C01", "C02", "C03", "C14", "C15", "C16", "C19"],
             "kind_free_text": "bounded-exhaustive enumeration of input families against independent reference codecs/grammars"},
            {"name": "vrt+explore", "path": "/verif/mc/vrt.py", "serves_properties": ["C04", "C05", "C06", "C09", "C10", "C17", "C18", "C20"],
             "kind_free_text": "stateless, deviation-bounded exploration of thread schedules and environment answers of the real classes "
                               "under a virtual runtime that owns threads, locks, queues, timers, time, sockets"},
            {"name": "vrt+hbfs", "path": "/verif/mc/hbfs.py", "serves_properties": ["C05", "C07", "C08", "C11", "C12", "C13", "C18"],
             "kind_free_text": "explicit-state breadth-first search over event histories executed on fresh real objects, canonical-state "
                               "deduplication, reference-model oracle on every step"},
            {"name": "vrt+pairs/firstuse", "path": "/verif/mc/firstuse.py", "serves_properties": ["C01", "C02", "C03", "C14", "C15", "C19"],
             "kind_free_text": "delay-bounded schedule exploration of two threads running one operation each on separate objects at line granularity "
                               "(mc/pairs.py, long-lived worker) and as the first two operations of a pristine process (mc/firstuse.py, one forked "
                               "child per execution; C03/C15/C19 in the thorough tier only)"},
        ],
        "checks": checks,
        "not_applicable": [{"property_id": p, "reason": NOT_YET} for p in ALL if p not in CHECKS],
        "notes": "All checks import secsgem from /repo's working tree at run time (VERIF_REPO overrides). Exit 0 held / 1 violation "
                 "(VIOLATION line) / 2 harness error (no VIOLATION line). Known findings: /verif/known_findings.json.",
    }
    path = os.path.join(HERE, "MANIFEST.json")
    with open(path, "w") as f:
        json.dump(manifest, f, indent=1)
    import jsonschema

    with open(os.path.join(HERE, "schemas", "MANIFEST.schema.json")) as f:
        jsonschema.validate(manifest, json.load(f))
    print("MANIFEST.json written,", len(checks), "checks,", len(manifest["not_applicable"]), "not_applicable")


if __name__ == "__main__":
    main()
