#!/venv/bin/python
"""Re-run every kept seeded defect (/verif/seeded/<id>/patch.diff) against its own property's check on the current tree and
record the result in its meta.json ("detection_current") and in seeded/SUMMARY.md.

  reseed.py [--tier quick] [--only C04-1,C08-3] [--extra C04-3=C10,C09-2=C05]
"""
import argparse
import json
import os
import subprocess
import sys

VERIF = os.path.dirname(os.path.dirname(os.path.abspath(__file__)))


def head(path):
    return subprocess.run(["git", "-C", path, "rev-parse", "--short", "HEAD"], capture_output=True, text=True).stdout.strip()


def main():
    ap = argparse.ArgumentParser()
    ap.add_argument("--tier", default="quick")
    ap.add_argument("--only")
    a = ap.parse_args()
    root = os.path.join(VERIF, "seeded")
    ids = sorted(d for d in os.listdir(root) if os.path.isdir(os.path.join(root, d)))
    if a.only:
        ids = [i for i in ids if i in a.only.split(",")]
    rows = []
    for sid in ids:
        sd = os.path.join(root, sid)
        mp = os.path.join(sd, "meta.json")
        meta = json.load(open(mp)) if os.path.exists(mp) else {"property": sid.split("-")[0]}
        prop = meta.get("property", sid.split("-")[0])
        if meta.get("out_of_reach"):
            rows.append((sid, prop, "OUT-OF-REACH", meta["out_of_reach"][:200]))
            print(sid, "OUT-OF-REACH", flush=True)
            continue
        if meta.get("superseded"):
            rows.append((sid, prop, "SUPERSEDED", meta["superseded"][:200]))
            print(sid, "SUPERSEDED", flush=True)
            continue
        r = subprocess.run(["/venv/bin/python", os.path.join(VERIF, "tools", "trymut.py"), "--patch", os.path.join(sd, "patch.diff"), "--tier", a.tier,
                            "--seeds", "0", prop], cwd=VERIF, capture_output=True, text=True, timeout=3600)
        line = [ln for ln in r.stdout.splitlines() if ln.startswith(prop + " seed=") and ":" in ln]
        res = line[-1].split(":", 1)[1].strip() if line else ("ERROR " + (r.stdout + r.stderr)[-200:])
        meta["detection_current"] = {"check": prop, "tier": a.tier, "result": res[:400], "repo": head("/repo"), "verif": head(VERIF)}
        with open(mp, "w") as f:
            json.dump(meta, f, indent=1)
        verdict = res.split()[0] if res else "?"
        rows.append((sid, prop, verdict, res))
        print(sid, verdict, res[:160], flush=True)
    # SUMMARY.md: rows of the seeds just run replace their old rows, the others stay
    sp = os.path.join(root, "SUMMARY.md")
    table = {}
    if a.only and os.path.exists(sp):
        for ln in open(sp).read().splitlines()[2:]:
            cells = [c.strip() for c in ln.strip("|").split("|", 2)]
            if len(cells) == 3 and "-" in cells[0]:
                table[cells[0]] = (cells[1], cells[2])
    for sid, prop, verdict, res in rows:
        sigs = res[res.find("["):][:220] if "[" in res else ""
        table[sid] = (prop, f"{verdict} {sigs}")

    def order(sid):
        pr, _, n = sid.partition("-")
        return (pr, int(n) if n.isdigit() else 0)

    with open(sp, "w") as f:
        f.write("| seed | own check | result (" + a.tier + " tier) |\n|---|---|---|\n")
        for sid in sorted(table, key=order):
            f.write(f"| {sid} | {table[sid][0]} | {table[sid][1]} |\n")
    return 0 if all(v in ("DETECTED", "SUPERSEDED", "OUT-OF-REACH") for _, _, v, _ in rows) else 1


if __name__ == "__main__":
    sys.exit(main())
