#!/venv/bin/python
"""Rebuild seeded/SUMMARY.md from the per-seed records (meta.json: detection_current / out_of_reach / superseded)."""
import collections
import json
import os

ROOT = os.path.join(os.path.dirname(os.path.dirname(os.path.abspath(__file__))), "seeded")


def order(sid):
    pr, _, n = sid.partition("-")
    return (pr, int(n) if n.isdigit() else 0)


rows = []
for sid in sorted((d for d in os.listdir(ROOT) if os.path.isdir(os.path.join(ROOT, d))), key=order):
    m = json.load(open(os.path.join(ROOT, sid, "meta.json")))
    prop = m.get("property", sid.split("-")[0])
    if m.get("out_of_reach"):
        rows.append((sid, prop, "OUT-OF-REACH " + m["out_of_reach"][:200]))
    elif m.get("superseded"):
        rows.append((sid, prop, "SUPERSEDED " + m["superseded"][:200]))
    elif m.get("detection_current"):
        res = m["detection_current"]["result"]
        rows.append((sid, prop, res.split()[0] + " " + (res[res.find("["):][:220] if "[" in res else "")))
    else:
        rows.append((sid, prop, "(not re-run) " + str(m.get("detection"))[:200]))
with open(os.path.join(ROOT, "SUMMARY.md"), "w") as f:
    f.write("| seed | own check | result (quick tier) |\n|---|---|---|\n")
    for r in rows:
        f.write(f"| {r[0]} | {r[1]} | {r[2]} |\n".replace("\n |", " |"))
print(collections.Counter(r[2].split()[0] for r in rows))
