#!/venv/bin/python
"""Apply a mutant to a scratch copy of /repo and run checks against it.

  trymut.py --patch mutants/x.diff C01 C02          (patch -p1 file)
  trymut.py --sub secsgem/a.py 'old' 'new' C01      (inline textual replacement, must match exactly once)
  options: --tests  also run the repo's baseline test-suite on the scratch copy
           --tier quick|thorough     --seeds 0,1,2
Prints one line per check: DETECTED (exit 1 + VIOLATION line) / MISSED (exit 0) / ERROR (other).
The scratch copy lives under /tmp/verif_mut_<pid> and is always removed.
"""
import argparse
import os
import shutil
import subprocess
import sys
import tempfile

VERIF = os.path.dirname(os.path.dirname(os.path.abspath(__file__)))


def main():
    ap = argparse.ArgumentParser()
    ap.add_argument("--patch")
    ap.add_argument("--sub", nargs=3, action="append", metavar=("FILE", "OLD", "NEW"))
    ap.add_argument("--tests", action="store_true")
    ap.add_argument("--tier", default="quick")
    ap.add_argument("--seeds", default="0")
    ap.add_argument("--save", help="write the resulting diff to this path")
    ap.add_argument("-v", action="store_true")
    ap.add_argument("checks", nargs="*")
    a = ap.parse_args()

    tmp = tempfile.mkdtemp(prefix="verif_mut_", dir="/tmp")
    dst = os.path.join(tmp, "repo")
    rc_all = 0
    try:
        subprocess.run(["rsync", "-a", "--exclude", ".git", "--exclude", "docs", "--exclude", "__pycache__", "/repo/", dst + "/"], check=True)
        if a.patch:
            r = subprocess.run(["patch", "-p1", "-d", dst, "-i", os.path.abspath(a.patch)], capture_output=True, text=True)
            if r.returncode:
                print("PATCH FAILED", r.stdout, r.stderr)
                return 3
        for f, old, new in a.sub or []:
            p = os.path.join(dst, f)
            s = open(p).read()
            if s.count(old) != 1:
                print(f"SUB FAILED: {s.count(old)} matches in {f}")
                return 3
            open(p, "w").write(s.replace(old, new))
        if a.save:
            r = subprocess.run(["diff", "-ruN", "--exclude=.git", "--exclude=docs", "--exclude=__pycache__", "--exclude=coverage.xml",
                                "/repo/secsgem", dst + "/secsgem"], capture_output=True, text=True)
            txt = r.stdout.replace(dst + "/", "b/").replace("/repo/", "a/")
            open(a.save, "w").write(txt)
        if a.tests:
            r = subprocess.run(["/venv/bin/python", "-m", "pytest", "-q", "-x", "-p", "no:cacheprovider", "--timeout=900", "--no-cov"],
                               cwd=dst, capture_output=True, text=True)
            tail = r.stdout.strip().splitlines()[-1] if r.stdout.strip() else r.stderr[-300:]
            print(f"TESTS exit={r.returncode} {tail}")
        for chk in a.checks:
            for seed in a.seeds.split(","):
                env = dict(os.environ, VERIF_REPO=dst, VERIF_SEED=seed, PYTHONHASHSEED="0", VERIF_NO_EVIDENCE="1")
                r = subprocess.run(["/venv/bin/python", os.path.join(VERIF, "run.py"), chk, "--tier", a.tier], cwd=VERIF, env=env,
                                   capture_output=True, text=True)
                viol = [ln for ln in r.stdout.splitlines() if ln.startswith("VIOLATION")]
                sigs = [ln.strip() for ln in r.stdout.splitlines() if ln.strip().startswith("signature:")]
                if r.returncode == 1 and viol:
                    status = "DETECTED"
                elif r.returncode == 0:
                    status = "MISSED"
                    rc_all = 1
                else:
                    status = f"ERROR(exit={r.returncode})"
                    rc_all = 1
                print(f"{chk} seed={seed}: {status} ({len(viol)} violation lines) {sigs[:3]}")
                if a.v or status.startswith("ERROR"):
                    print(r.stdout[-3000:])
                    print(r.stderr[-3000:])
    finally:
        shutil.rmtree(tmp, ignore_errors=True)
    return rc_all


if __name__ == "__main__":
    sys.exit(main())
