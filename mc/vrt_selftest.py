"""Self-test of the virtual runtime (part of MANIFEST.setup_cmd): replay determinism, deadlock / livelock / spin
verdicts, virtual time, thread teardown.  Any failure makes the setup fail - nothing a check reports is believable
on a runtime that does not pass this."""
from __future__ import annotations

import sys


def main() -> int:
    from mc import loader

    loader.install_shims()
    from mc import vrt

    fails = []

    def expect(name, cond, info=""):
        print(("ok   " if cond else "FAIL ") + name, info if not cond else "")
        if not cond:
            fails.append(name)

    # 1. deterministic replay of a racy program under recorded deviations
    def racy(s):
        ev, q, out = vrt.Event(), vrt.Queue(), []
        box = {"n": 0}

        def inc(tag):
            for _ in range(3):
                v = box["n"]
                s.point("read")
                box["n"] = v + 1
            out.append(tag)
            q.put(tag)

        ts = [vrt.Thread(target=inc, args=(i,)) for i in range(2)]
        for t in ts:
            t.start()
        for t in ts:
            t.join()
        ev.set()
        s.log.append((box["n"], tuple(out)))

    base = vrt.run(racy, {}, {"sched": 2})
    outcomes = set()
    n = 0
    for i in range(len(base.trace)):
        a = vrt.run(racy, {i: 1}, {"sched": 2})
        b = vrt.run(racy, {i: 1}, {"sched": 2})
        n += 1
        if a.log != b.log or a.trace != b.trace:
            fails.append(f"replay differs at deviation {i}")
        outcomes.add(a.log[0][0])
    expect("replay determinism over %d single-deviation schedules" % n, not any(f.startswith("replay") for f in fails))
    expect("lost update reachable with one delay (outcomes %s)" % sorted(outcomes), len(outcomes) > 1)

    # 2. deadlock verdict
    def deadlock(s):
        a, b = vrt.Lock(), vrt.Lock()

        def t1():
            with a:
                s.point("x")
                with b:
                    pass

        def t2():
            with b:
                s.point("x")
                with a:
                    pass

        x, y = vrt.Thread(target=t1), vrt.Thread(target=t2)
        x.start()
        y.start()
        x.join()
        y.join()

    found = False
    base = vrt.run(deadlock, {}, {"sched": 1})
    for i in range(len(base.trace)):
        r = vrt.run(deadlock, {i: 1}, {"sched": 1})
        found = found or r.outcome == "deadlock"
    expect("lock-order deadlock found with one delay", found and base.outcome == "done")

    # 3. virtual time: timers fire in deadline order, only when nothing else can run
    def timers(s):
        order = []
        vrt.Timer(30, lambda: order.append(("b", s.clock))).start()
        vrt.Timer(5, lambda: order.append(("a", s.clock))).start()
        vrt.vtime.sleep(100)
        s.log.append(order)

    r = vrt.run(timers)
    expect("virtual timers", r.log == [[("a", 5.0), ("b", 30.0)]] and r.clock == 100.0, str(r.log))

    # 4. spin-wait in traced code is not a hang when somebody sets the flag, and is a livelock verdict when nobody does
    class Spin:
        flag = False

        def wait(self):
            while not self.flag:
                pass

    vrt.trace_functions([Spin.wait], lines=False, jumps=True)

    def spin_ok(s):
        sp = Spin()

        def setter():
            vrt.vtime.sleep(1.0)
            sp.flag = True

        vrt.Thread(target=setter).start()
        sp.wait()
        s.log.append(s.clock)

    r = vrt.run(spin_ok, max_steps=100000)
    expect("spin loop released by a sleeping thread", r.outcome == "done" and r.log == [1.0], f"{r.outcome} {r.log}")

    def spin_forever(s):
        Spin().wait()

    r = vrt.run(spin_forever, max_steps=100000)
    expect("spin loop nobody releases is reported", r.outcome in ("livelock", "step_horizon", "deadlock"), str(r.outcome))

    # 5. the real HsmsProtocol runs under the runtime and all its threads are torn down
    from checks import c06

    a = c06.run_one({}, {"sched": 0, "env": 0}, cfg={"callers": 2, "unsolicited": 2, "counter": 0})
    b = c06.run_one({}, {"sched": 0, "env": 0}, cfg={"callers": 2, "unsolicited": 2, "counter": 0})
    # determinism is the runtime's business (fatal); whether the library under test holds the oracle is the checks' business (reported only)
    expect("HsmsProtocol driver: identical observation on re-run", a["obs"] == b["obs"], str(a["obs"])[:200])
    print("info HsmsProtocol driver default schedule:", "oracle holds" if not a["v"] else f"oracle reports {[v[0] for v in a['v']]}")
    print("vrt selftest:", "FAILED " + ", ".join(fails) if fails else "all passed")
    return 1 if fails else 0


if __name__ == "__main__":
    sys.exit(main())
