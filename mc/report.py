"""Evidence, violations, known findings, replay files and the parallel case runner."""
from __future__ import annotations

import hashlib
import itertools
import json
import multiprocessing as mp
import os
import sys
import time
import traceback

VERIF = os.path.dirname(os.path.dirname(os.path.abspath(__file__)))
EVIDENCE_DIR = os.path.join(VERIF, "evidence")
REPLAY_DIR = os.path.join(VERIF, "replays")
KNOWN = os.path.join(VERIF, "known_findings.json")
SCHEMA = os.path.join(VERIF, "schemas", "EVIDENCE.schema.json")

MAX_VIOLATION_LINES = 25


def jhash(obj) -> str:
    return hashlib.sha1(json.dumps(obj, sort_keys=True, default=repr).encode()).hexdigest()[:16]


def jsonable(obj):
    """Best-effort conversion to something json.dump accepts (bytes -> hex string)."""
    if isinstance(obj, (bytes, bytearray)):
        b = bytes(obj)
        if len(b) > 96:
            return {"hex_head": b[:48].hex(), "hex_tail": b[-16:].hex(), "len": len(b)}
        return {"hex": b.hex()}
    if isinstance(obj, dict):
        return {str(k): jsonable(v) for k, v in obj.items()}
    if isinstance(obj, (list, tuple, set, frozenset)):
        return [jsonable(v) for v in obj]
    if isinstance(obj, float):
        if obj != obj or obj in (float("inf"), float("-inf")):
            return repr(obj)
        return obj
    if isinstance(obj, (str, int, bool)) or obj is None:
        return obj
    return repr(obj)


class Ctx:
    """Per-run context handed to a check."""

    def __init__(self, prop: str, tier: str, seed: int, level: str, replaying: bool = False):
        self.prop = prop
        self.tier = tier
        self.seed = seed
        self.level = level
        self.replaying = replaying
        self.t0 = time.time()
        self.cov: dict = {}
        self.samples: list = []
        self.assumptions: list[str] = []
        self.violations: dict[str, dict] = {}
        self.evaluations = 0
        self._nontrivial: set[str] = set()
        self.notes: list[str] = []
        self.exhaustive = True
        self.harness_errors: list[str] = []
        self.deadline = None  # optional wall-clock cap set by run.py

    # ------------------------------------------------------------------ recording
    @property
    def thorough(self) -> bool:
        return self.tier == "thorough"

    def count(self, key: str, n: int = 1):
        self.cov[key] = self.cov.get(key, 0) + n

    def setcov(self, key: str, value):
        self.cov[key] = value

    def sample(self, obj, limit: int = 6):
        if len(self.samples) < limit:
            self.samples.append(jsonable(obj))

    def note(self, text: str):
        if text not in self.notes:
            self.notes.append(text)

    def nontrivial(self, key):
        self._nontrivial.add(key if isinstance(key, str) else jhash(key))

    def violation(self, sig: str, detail: dict):
        """Record a violation. sig is a stable signature; detail must contain a replayable 'case'."""
        v = self.violations.get(sig)
        if v is None:
            self.violations[sig] = {"count": 1, "detail": jsonable(detail)}
        else:
            v["count"] += 1

    def harness_error(self, text: str):
        self.harness_errors.append(text)

    def capped(self, what: str):
        """A time/size cap stopped an enumeration: the run is not exhaustive for that family."""
        self.exhaustive = False
        self.note(f"cap hit: {what}")

    def time_slice(self, parts_left):
        """Context manager: the enclosed part may use at most 1/parts_left of the remaining wall-clock budget (so that one deep
        exploration cannot starve the parts after it); a cap hit inside it is reported as usual."""
        import contextlib  # noqa: PLC0415

        ctx = self

        @contextlib.contextmanager
        def cm():
            whole = ctx.deadline
            if whole is not None:
                now = time.time()
                ctx.deadline = min(whole, now + max(0.0, whole - now) / max(1, parts_left))
            try:
                yield
            finally:
                ctx.deadline = whole

        return cm()

    def out_of_time(self) -> bool:
        return self.deadline is not None and time.time() > self.deadline

    # ------------------------------------------------------------------ case runner
    def run_cases(self, fn, cases, family: str, procs: int | None = None, chunk: int = 64):
        """Run fn(case) -> {"v": [(sig, detail)], "nt": key|None, "cnt": {k: n}} over all cases.

        Cases are JSON-able descriptors.  Runs in forked workers (the code under test is already
        imported), aggregates counts.  Returns number of cases evaluated.
        """
        procs = procs or int(os.environ.get("VERIF_PROCS", "0")) or min(16, os.cpu_count() or 1)
        n = 0
        it = iter(cases)
        first = list(itertools.islice(it, 3))
        for c in first[:2]:
            self.sample({"family": family, "case": c})
        it = itertools.chain(first, it)

        def absorb(res_list):
            nonlocal n
            for case_key, res in res_list:
                n += 1
                self.evaluations += 1
                for sig, detail in res.get("v", ()):
                    if sig.startswith("HARNESS|"):
                        self.harness_error(f"{sig} {json.dumps(jsonable(detail))[:1800]}")
                    else:
                        self.violation(sig, detail)
                nt = res.get("nt")
                if nt:
                    self._nontrivial.add(case_key)
                for k, c in (res.get("cnt") or {}).items():
                    self.count(k, c)
                for k in res.get("tags", ()):
                    self.cov.setdefault("tags", {})
                    self.cov["tags"][k] = self.cov["tags"].get(k, 0) + 1

        if procs <= 1 or self.replaying:
            for case in it:
                absorb(_run_chunk((fn, [case])))
                if self.out_of_time():
                    self.capped(f"{family}: wall-clock cap after {n} cases")
                    break
        else:
            ctxm = mp.get_context("fork")
            from mc.explore import die_with_parent  # noqa: PLC0415

            with ctxm.Pool(procs, initializer=die_with_parent) as pool:
                chunks = _chunks(it, chunk)
                for res_list in pool.imap_unordered(_run_chunk, ((fn, ch) for ch in chunks)):
                    absorb(res_list)
                    if self.out_of_time():
                        self.capped(f"{family}: wall-clock cap after {n} cases")
                        pool.terminate()
                        break
        self.count(f"cases[{family}]", n)
        return n

    # ------------------------------------------------------------------ finishing
    def finish(self) -> int:
        known = load_known()
        wall = time.time() - self.t0
        unknown = []
        known_hit = []
        for sig, v in sorted(self.violations.items()):
            k = match_known(known, self.prop, sig)
            if k is not None:
                known_hit.append((sig, k, v))
            else:
                unknown.append((sig, v))

        os.makedirs(REPLAY_DIR, exist_ok=True)
        for sig, k, v in known_hit:
            print(f"KNOWN-FINDING: property={self.prop} {k['what']} [sig={sig} x{v['count']}]")
        lines = 0
        for sig, v in unknown:
            path = os.path.join(REPLAY_DIR, f"{self.prop}-{jhash(sig)}.json")
            with open(path, "w") as f:
                json.dump({"property": self.prop, "signature": sig, "count": v["count"], "detail": v["detail"]}, f, indent=1)
            if lines < MAX_VIOLATION_LINES:
                print(f"VIOLATION property={self.prop} replay={path}")
                print(f"  signature: {sig}")
                lines += 1
        if len(unknown) > lines:
            print(f"  ... and {len(unknown) - lines} more distinct violation signatures")

        cov = dict(self.cov)
        cov.setdefault("evaluations", self.evaluations)
        cov.setdefault("distinct_nontrivial", len(self._nontrivial))
        cov["samples"] = self.samples or [{"note": "no sample recorded"}]
        cov["exhaustive"] = bool(self.exhaustive)
        cov["distinct_violation_signatures"] = len(unknown)
        cov["known_findings_met"] = [sig for sig, _, _ in known_hit]
        if self.notes:
            cov["notes"] = self.notes
        ev = {
            "property_id": self.prop,
            "tier": self.tier,
            "seed": self.seed,
            "level": self.level,
            "coverage": jsonable(cov),
            "assumptions": self.assumptions,
            "wall_s": round(wall, 3),
            "violations": len(unknown),
        }
        if not self.replaying and not os.environ.get("VERIF_NO_EVIDENCE"):
            write_evidence(ev)
        for e in self.harness_errors[:10]:
            print(f"HARNESS-ERROR property={self.prop} {e}", file=sys.stderr)
        print(
            f"{self.prop} tier={self.tier} seed={self.seed} evaluations={cov.get('evaluations')} "
            f"nontrivial={cov.get('distinct_nontrivial')} states={cov.get('states', '-')} "
            f"violations={len(unknown)} known={len(known_hit)} exhaustive={cov['exhaustive']} wall={wall:.1f}s"
        )
        if self.harness_errors:
            return 2
        return 1 if unknown else 0


def _chunks(it, n):
    while True:
        ch = list(itertools.islice(it, n))
        if not ch:
            return
        yield ch


def _run_chunk(arg):
    fn, cases = arg
    out = []
    for case in cases:
        try:
            res = fn(case) or {}
        except BaseException as exc:  # noqa: BLE001 - a crash of the harness itself on a case
            if isinstance(exc, (KeyboardInterrupt, SystemExit)):
                raise
            res = {"v": [(f"HARNESS|{type(exc).__name__}", {"case": case, "trace": traceback.format_exc()[-1500:]})]}
        out.append((jhash(case), res))
    return out


def load_known() -> dict:
    try:
        with open(KNOWN) as f:
            return json.load(f)
    except FileNotFoundError:
        return {"findings": [], "fixed": []}


def match_known(known: dict, prop: str, sig: str):
    for k in known.get("findings", []):
        if k.get("property") != prop:
            continue
        if sig == k.get("signature"):
            return k
    return None


def write_evidence(ev: dict):
    os.makedirs(EVIDENCE_DIR, exist_ok=True)
    try:
        import jsonschema  # noqa: PLC0415

        with open(SCHEMA) as f:
            schema = json.load(f)
        jsonschema.validate(ev, schema)
    except ImportError:
        pass
    path = os.path.join(EVIDENCE_DIR, f"{ev['property_id']}.json")
    tmp = path + ".tmp"
    with open(tmp, "w") as f:
        json.dump(ev, f, indent=1)
    os.replace(tmp, path)
