"""Stateless, deviation-bounded exploration (shape S).

An execution is identified by its sparse deviation map {offered choice index: non-default choice}.
Level k of the search holds every execution with exactly k deviations; children of an execution deviate
at an offered point *after* its last deviation, so every deviation set is generated exactly once.
Levels are run one after the other (0, 1, 2, ...), fanned out over forked workers.
"""
from __future__ import annotations

import multiprocessing as mp
import os
import statistics
import time

from mc import vrt
from mc.report import jhash, jsonable



def _pin():
    """Pin this worker to one CPU: only one virtual thread runs at a time, and baton hand-offs between
    OS threads on different CPUs cost cross-CPU wake-ups (measured 14x CPU time on 16 workers)."""
    try:
        cpus = sorted(os.sched_getaffinity(0))
        die_with_parent()
        ident = mp.current_process()._identity
        k = (ident[0] - 1) if ident else 0
        os.sched_setaffinity(0, {cpus[k % len(cpus)]})
    except (AttributeError, OSError):
        pass


def die_with_parent():
    """Workers must not outlive a killed parent (watchdog, timeout): PR_SET_PDEATHSIG = SIGKILL."""
    try:
        import ctypes  # noqa: PLC0415
        import signal  # noqa: PLC0415

        ctypes.CDLL("libc.so.6", use_errno=True).prctl(1, int(signal.SIGKILL), 0, 0, 0)
    except Exception:  # noqa: BLE001
        pass


_POOL = None
_POOL_PROCS = 0


def get_pool(procs):
    """One pool of forked, CPU-pinned workers per process, reused by every exploration: the copy-on-write
    page faults of a freshly forked worker are very expensive in this sandbox (first ~50 executions run
    10x slower), so workers are kept.  Must be called after line tracing has been set up."""
    global _POOL, _POOL_PROCS
    if _POOL is None or _POOL_PROCS != procs:
        if _POOL is not None:
            _POOL.terminate()
        import gc  # noqa: PLC0415

        gc.collect()
        gc.freeze()
        _POOL = mp.get_context("fork").Pool(procs, initializer=_pin)
        _POOL_PROCS = procs
    return _POOL


def close_pool():
    global _POOL
    if _POOL is not None:
        _POOL.terminate()
        _POOL = None


def _work(task):
    fn, budgets, opts, devs_list = task
    out = []
    for devs in devs_list:
        out.append(_run_one(devs, fn, budgets, opts))
    return out


def _run_one(devs, _FN, _BUDGETS, _OPTS):  # noqa: N803
    res = _FN(dict(devs), dict(_BUDGETS), **_OPTS)
    trace = res.pop("trace")
    last = max(devs) if devs else -1
    used = {}
    for i, (kind, _n, c) in enumerate(trace):
        if c:
            used[kind] = used.get(kind, 0) + 1
    children = []
    for i in range(last + 1, len(trace)):
        kind, n, c = trace[i]
        if c:
            continue
        if used.get(kind, 0) >= _BUDGETS.get(kind, 0):
            continue
        for alt in range(1, n):
            d = dict(devs)
            d[i] = alt
            children.append(d)
    res["children"] = children
    res["npoints"] = len(trace)
    res["devs"] = devs
    return res


def explore(ctx, fn, budgets, name, opts=None, max_level=None, procs=None, chunk=8, stop_after_violations=200):
    """Explore fn over all deviation sets within budgets.

    fn(devs, budgets, **opts) -> {"trace": sched.trace, "obs": hashable/jsonable observation, "v": [(sig, detail)],
                                  "harness": optional error text}
    Returns stats dict.
    """
    _OPTS = dict(opts or {})  # noqa: N806
    procs = procs or int(os.environ.get("VERIF_PROCS", "0")) or min(16, os.cpu_count() or 1)
    total_budget = sum(budgets.values())
    max_level = total_budget if max_level is None else min(max_level, total_budget)
    level = [{}]
    stats = {"executions": 0, "levels_completed": -1, "per_level": [], "outcomes": {}, "points": []}
    outcomes = stats["outcomes"]
    nviol = 0
    pool = None
    if procs > 1 and not ctx.replaying:
        pool = get_pool(procs)
    try:
        for k in range(max_level + 1):
            nxt = []
            t0 = time.time()
            n_level = 0
            complete = True
            chunks = [(fn, budgets, _OPTS, level[i:i + chunk]) for i in range(0, len(level), chunk)]
            it = pool.imap_unordered(_work, chunks) if pool is not None else map(_work, chunks)
            for res_list in it:
                for res in res_list:
                    n_level += 1
                    ctx.evaluations += 1
                    if res.get("harness"):
                        ctx.harness_error(f"{name}: {res['harness']} devs={res['devs']}")
                    okey = jhash(res.get("obs"))
                    if okey not in outcomes:
                        outcomes[okey] = {"count": 0, "example": jsonable(res.get("obs")), "devs": jsonable(res["devs"])}
                    outcomes[okey]["count"] += 1
                    if len(stats["points"]) < 5000:
                        stats["points"].append(res["npoints"])
                    for sig, detail in res.get("v", ()):
                        detail = dict(detail)
                        detail.setdefault("case", {})
                        detail["case"] = dict(detail["case"], devs={str(a): b for a, b in res["devs"].items()}, budgets=budgets,
                                              driver=name, opts=_OPTS)
                        ctx.violation(sig, detail)
                        nviol += 1
                    nxt.extend(res["children"])
                if ctx.out_of_time() or nviol >= stop_after_violations:
                    complete = False
                    break
            stats["executions"] += n_level
            stats["per_level"].append({"deviations": k, "executions": n_level, "complete": complete, "wall_s": round(time.time() - t0, 2)})
            if not complete:
                if pool is not None:
                    close_pool()
                    pool = None
                if nviol >= stop_after_violations:
                    ctx.note(f"{name}: stopped after {nviol} violation reports at deviation level {k}")
                else:
                    ctx.capped(f"{name}: wall-clock cap inside deviation level {k} ({n_level}/{len(level)} executions)")
                break
            stats["levels_completed"] = k
            level = nxt
            if not level:
                # no execution offers a further deviation: every higher level is empty, hence complete
                stats["levels_completed"] = max_level
                break
    finally:
        pass
    pts = stats.pop("points")
    if pts:
        stats["choice_points_per_execution"] = {"min": min(pts), "median": int(statistics.median(pts)), "max": max(pts)}
    stats["distinct_outcomes"] = len(outcomes)
    # keep the outcome table small in the evidence
    stats["outcomes"] = sorted(({"count": v["count"], "example": v["example"]} for v in outcomes.values()), key=lambda x: -x["count"])[:8]
    return stats


def run_driver(driver, devs, budgets, traced=None, **sched_opts):
    """Run one execution and return the scheduler; deviation keys may be str (from JSON replays)."""
    devs = {int(k): v for k, v in (devs or {}).items()}
    return vrt.run(driver, devs, budgets, **sched_opts)


import atexit  # noqa: E402

atexit.register(close_pool)
