"""Conformance of the kernel model (mc/vnet.py) with real loopback sockets.

The same scripted syscall sequences are run (a) against the real `socket` / `select` modules on 127.0.0.1,
free-running, and (b) against the model inside a virtual-runtime execution, and the observable answers
(return values, errno names, readiness) are compared.  This run is NOT a deciding step of any check; it shows
that the environment answers the checks enumerate are ones the Linux kernel really gives.  Known, accepted
divergences are listed in DIVERGENCES (the model is allowed to be *earlier* with an error, never to invent one).

  /venv/bin/python -m mc.vnet_conformance        exit 0 if every scenario agrees
"""
from __future__ import annotations

import errno
import select as real_select
import socket as real_socket
import sys

DIVERGENCES = {
    "send_after_peer_close": "Linux accepts the first send after the peer closed and fails the next one (EPIPE/ECONNRESET); "
                             "the model fails the first one already (earlier, same error class)",
}


def err(exc):
    if isinstance(exc, ValueError):
        return "ValueError"
    return errno.errorcode.get(getattr(exc, "errno", None), type(exc).__name__)


def scenarios(sk, select, port):
    """Yield (name, observation).  sk = socket module (real or model), select = select function."""
    addr = ("127.0.0.1", port)

    def listener():
        s = sk.socket(sk.AF_INET, sk.SOCK_STREAM)
        s.setsockopt(sk.SOL_SOCKET, sk.SO_REUSEADDR, 1)
        s.bind(addr)
        s.listen(1)
        return s

    # 1. second listener on the same address while the first is active
    a = listener()
    try:
        b = listener()
        b.close()
        obs = "second bind ok"
    except OSError as e:
        obs = err(e)
    yield "bind_while_listening", obs

    # 2. select on an idle listener times out; accept on a non-blocking idle listener would block
    r, _, _ = select([a], [], [], 0.05)
    a.setblocking(False)
    try:
        a.accept()
        obs2 = "accepted"
    except OSError as e:
        obs2 = err(e)
    a.setblocking(True)
    yield "idle_listener", (len(r), "EAGAIN" if obs2 in ("EAGAIN", "EWOULDBLOCK") else obs2)

    # 3. connect, accept, small send, recv
    c = sk.socket(sk.AF_INET, sk.SOCK_STREAM)
    c.connect(addr)
    r, _, _ = select([a], [], [], 1.0)
    srv, _ = a.accept()
    n = c.send(b"hello")
    r2, _, _ = select([srv], [], [], 1.0)
    data = srv.recv(1024)
    yield "connect_send_recv", (len(r), n, len(r2), data)

    # 4. non-blocking recv without data
    srv.setblocking(False)
    try:
        srv.recv(10)
        obs = "data"
    except OSError as e:
        obs = err(e)
    yield "recv_would_block", "EAGAIN" if obs in ("EAGAIN", "EWOULDBLOCK") else obs

    # 5. writable when idle
    _, w, _ = select([], [srv], [], 0.05)
    yield "idle_socket_writable", len(w)

    # 6. peer close: readable, recv returns b""
    c.close()
    r, _, _ = select([srv], [], [], 1.0)
    try:
        d = srv.recv(10)
    except OSError as e:
        d = err(e)
    yield "recv_after_peer_close", (len(r), d)

    # 7. send after the peer closed: fails within two sends
    res = []
    for _ in range(2):
        try:
            res.append(srv.send(b"x"))
        except OSError as e:
            res.append("EPIPE" if err(e) in ("EPIPE", "ECONNRESET") else err(e))
            break
        select([], [], [], 0.05) if select is real_select.select else None
    yield "send_after_peer_close", "EPIPE" if "EPIPE" in res else res

    # 8. select on a closed socket
    srv.close()
    try:
        select([srv], [], [], 0.01)
        obs = "no error"
    except (OSError, ValueError) as e:
        obs = err(e)
    yield "select_on_closed_socket", obs

    # 9. shutdown + close of a listening socket, then the address can be bound again
    try:
        a.shutdown(sk.SHUT_RDWR)
        obs = "ok"
    except OSError as e:
        obs = err(e)
    a.close()
    try:
        b = listener()
        b.close()
        obs2 = "rebind ok"
    except OSError as e:
        obs2 = err(e)
    yield "shutdown_listener_and_rebind", (obs, obs2)

    # 10. connect without listener
    c = sk.socket(sk.AF_INET, sk.SOCK_STREAM)
    try:
        c.connect(addr)
        obs = "connected"
    except OSError as e:
        obs = err(e)
    c.close()
    yield "connect_refused", obs

    # 11. the accepting side closes its connection first: the listening port has a connection in TIME_WAIT, and a new socket
    #     can be bound to it only if SO_REUSEADDR was set before bind()
    a = listener()
    c = sk.socket(sk.AF_INET, sk.SOCK_STREAM)
    c.connect(addr)
    select([a], [], [], 1.0)
    srv, _ = a.accept()
    srv.close()
    if select is real_select.select:
        select([], [], [], 0.1)
    c.close()
    a.close()
    if select is real_select.select:
        select([], [], [], 0.1)
    res = []
    for reuse_first in (False, True):
        b = sk.socket(sk.AF_INET, sk.SOCK_STREAM)
        try:
            if reuse_first:
                b.setsockopt(sk.SOL_SOCKET, sk.SO_REUSEADDR, 1)
            b.bind(addr)
            res.append("bind ok")
        except OSError as e:
            res.append(err(e))
        b.close()
    yield "bind_with_time_wait_connection", tuple(res)


def short_write_real(port):
    """Only on the real kernel: a non-blocking send of 16 MiB to a peer that does not read accepts a part, then would block."""
    a = real_socket.socket()
    a.setsockopt(real_socket.SOL_SOCKET, real_socket.SO_REUSEADDR, 1)
    a.bind(("127.0.0.1", port))
    a.listen(1)
    c = real_socket.socket()
    c.connect(("127.0.0.1", port))
    s, _ = a.accept()
    s.setblocking(False)
    big = bytes(16 << 20)
    first = s.send(big)
    try:
        second = s.send(big)
    except OSError as e:
        second = err(e)
    for x in (s, c, a):
        x.close()
    return first, second


def main():
    from mc import loader

    loader.install_shims()
    from mc import vnet, vrt

    real = dict(scenarios(real_socket, real_select.select, 47123))
    box = {}

    def driver(_s):
        box["model"] = dict(scenarios(vnet.vsocket, vnet.vselect.select, 47123))

    sched = vrt.run(driver, max_steps=100000)
    if sched.driver_exception:
        print(sched.driver_exception)
        return 2
    model = box["model"]
    bad = 0
    for name, robs in real.items():
        mobs = model.get(name)
        same = robs == mobs
        note = ""
        if not same and name in DIVERGENCES:
            note = " (accepted divergence: " + DIVERGENCES[name] + ")"
        print(f"{'ok  ' if same else ('div ' if note else 'FAIL')} {name}: real={robs!r} model={mobs!r}{note}")
        if not same and not note:
            bad += 1
    first, second = short_write_real(47124)
    ok = 0 < first < (16 << 20) and second in ("EAGAIN", "EWOULDBLOCK") or isinstance(second, int)
    print(f"{'ok  ' if ok else 'FAIL'} short write on a real non-blocking socket: 16 MiB offered, {first} accepted, next send -> {second} "
          f"(the answers C10 enumerates: partial count, then EWOULDBLOCK)")
    bad += 0 if ok else 1
    print("vnet conformance:", "FAILED" if bad else "ok")
    return 1 if bad else 0


if __name__ == "__main__":
    sys.exit(main())
