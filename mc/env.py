"""Environment models: an in-memory Connection whose events come from virtual threads in the same
thread roles as secsgem's TcpConnection (acceptor thread fires connected; receiver thread fires data
and the disconnecting -> close -> disconnected sequence)."""
from __future__ import annotations

import collections

from mc import loader, vrt

loader.load()
import secsgem.common  # noqa: E402
import secsgem.hsms  # noqa: E402

RECV_CHUNK = 1024


class LoopConnection(secsgem.common.Connection):
    def __init__(self, settings):
        super().__init__(settings)
        self._enabled = False
        self.inbox = collections.deque()
        self.eof = False
        self.sent = []  # (virtual time, bytes, generation)
        self.generation = 0
        self._thread_running = False
        self._stop_thread = False
        self.errors = []
        self.closed = 0
        self.send_ok = True
        self.after_close_sends = 0
        self.link = None  # optional Link that forwards written bytes to a peer connection
        self.send_fault_menu = False  # offer "this write fails" as an environment deviation
        self.failed_sends = []
        self.pace = 0.0  # > 0: virtual seconds between two arriving chunks (every other thread runs until it blocks in between)

    # ---- Connection API used by the protocol
    def enable(self):
        vrt.SCHED.point("conn-enable")
        self._enabled = True
        if self.link is not None:
            self.link.endpoint_enabled(self)

    def disable(self):
        vrt.SCHED.point("conn-disable")
        if self._enabled:
            self._enabled = False
            if self.link is not None:
                self.link.endpoint_disabled(self)
            self.disconnect()

    def disconnect(self):
        if not self._thread_running:
            return
        self._disconnecting = True
        self._stop_thread = True
        vrt.SCHED.block(lambda: not self._thread_running, None, "disconnect-wait")
        self._disconnecting = False

    def send_data(self, data):
        s = vrt.SCHED
        s.point("send")
        if not self._thread_running:
            self.after_close_sends += 1
            return False
        if not self.send_ok:
            return False
        if self.send_fault_menu and s.choose(2, "env") == 1:
            # environment deviation: this one write fails (transient), nothing of it reaches the wire
            self.failed_sends.append(bytes(data))
            return False
        data = bytes(data)
        self.sent.append((s.clock, data, self.generation))
        if self.link is not None:
            self.link.forward(self, data)
        return True

    # ---- harness / peer side
    @property
    def enabled(self):
        return self._enabled

    def peer_connect(self):
        """The TCP connection gets established: an acceptor thread marks connected, starts the receiver, fires on_connected."""
        if self._thread_running or not self._enabled:
            return False
        self.generation += 1
        self.inbox.clear()
        self.eof = False
        vrt.Thread(target=self._acceptor, name=f"conn-acceptor-{self.generation}").start()
        return True

    def _acceptor(self):
        self._connected = True
        rx = vrt.Thread(target=self._receiver, name=f"conn-receiver-{self.generation}")
        rx.start()
        vrt.SCHED.block(lambda: self._thread_running or rx._vt.state == vrt.DONE, None, "wait-receiver")
        try:
            self.on_connected({"source": self})
        except Exception as exc:  # noqa: BLE001 - the real connection logs and ignores
            self.errors.append(("on_connected", repr(exc)))

    def _receiver(self):
        s = vrt.SCHED
        self._thread_running = True
        try:
            while not self._stop_thread:
                s.block(lambda: self._stop_thread or self.inbox or self.eof, None, "recv")
                if self._stop_thread:
                    break
                if self.inbox:
                    chunk = self.inbox.popleft()
                    self.on_data({"source": self, "data": chunk})
                    if self.pace:
                        s.block(lambda: self._stop_thread, s.clock + self.pace, "line-pace")
                elif self.eof:
                    self._connected = False
                    self._stop_thread = True
        except Exception as exc:  # noqa: BLE001
            self.errors.append(("on_data", repr(exc)))
        try:
            self.on_disconnecting({"source": self})
        except Exception as exc:  # noqa: BLE001
            self.errors.append(("on_disconnecting", repr(exc)))
        self.closed += 1
        if self.link is not None:
            self.link.closed_by(self)
        try:
            self.on_disconnected({"source": self})
        except Exception as exc:  # noqa: BLE001
            self.errors.append(("on_disconnected", repr(exc)))
        self._connected = False
        self._thread_running = False
        self._stop_thread = False

    def peer_send(self, data, cuts=()):
        """Bytes arrive from the peer, cut into TCP segments at the given offsets (each read returns <= 1024 bytes)."""
        last = 0
        for c in list(cuts) + [len(data)]:
            seg = data[last:c]
            last = c
            for i in range(0, len(seg), RECV_CHUNK):
                self.inbox.append(bytes(seg[i:i + RECV_CHUNK]))

    def peer_close(self):
        self.eof = True

    def take_sent(self):
        out = b"".join(d for _, d, _ in self.sent)
        n = len(self.sent)
        del self.sent[:n]
        return out

    @property
    def link_up(self):
        return self._thread_running


def hsms_settings(active=False, **kw):
    mode = secsgem.hsms.HsmsConnectMode.ACTIVE if active else secsgem.hsms.HsmsConnectMode.PASSIVE

    class LoopHsmsSettings(secsgem.hsms.HsmsSettings):
        def create_connection(self):
            self.loop = LoopConnection(self)
            return self.loop

    return LoopHsmsSettings(connect_mode=mode, **kw)


class Link:
    """Two LoopConnections back to back: what one writes arrives at the other, cut into explorer-chosen chunks."""

    def __init__(self, a: LoopConnection, b: LoopConnection, chunk_menu=False):
        self.a, self.b = a, b
        a.link = b.link = self
        self.chunk_menu = chunk_menu
        self.writes = []  # global order: (virtual time, "a>b" | "b>a", bytes)
        self.corrupt = None  # (direction, index of the write in that direction, byte offset, xor mask)
        self.count = {"a>b": 0, "b>a": 0}
        self.all_bytes = False

    def other(self, c):
        return self.b if c is self.a else self.a

    def direction(self, c):
        return "a>b" if c is self.a else "b>a"

    def connect(self):
        self.a._enabled = self.b._enabled = True
        self.a.peer_connect()
        self.b.peer_connect()

    def endpoint_enabled(self, c):
        pass

    def endpoint_disabled(self, c):
        pass

    def closed_by(self, c):
        self.other(c).eof = True

    def forward(self, c, data):
        s = vrt.SCHED
        d = self.direction(c)
        idx = self.count[d]
        self.count[d] += 1
        self.writes.append((s.clock, d, data))
        if self.corrupt is not None and self.corrupt[0] == d and self.corrupt[1] == idx and self.corrupt[2] < len(data):
            off, mask = self.corrupt[2], self.corrupt[3]
            data = data[:off] + bytes([data[off] ^ mask]) + data[off + 1:]
        dst = self.other(c)
        cuts = []
        if self.all_bytes:
            cuts = list(range(1, len(data)))
        elif self.chunk_menu and len(data) > 1:
            ch = s.choose(4, "cut")
            if ch == 1:
                cuts = [1]
            elif ch == 2:
                cuts = [len(data) // 2]
            elif ch == 3:
                cuts = [len(data) - 1]
        dst.peer_send(data, cuts)


def autoconnect(link: "Link"):
    """Connector thread: whenever both endpoints are enabled and the line is down on both sides, the TCP connection
    gets established (the active side's connect succeeds at once).  Runs until the execution ends."""
    s = vrt.SCHED

    def ready():
        a, b = link.a, link.b
        return a.enabled and b.enabled and not a.link_up and not b.link_up

    def loop():
        while True:
            s.block(ready, None, "link-connector")
            link.a.eof = link.b.eof = False
            link.a.peer_connect()
            link.b.peer_connect()
            s.block(lambda: link.a.link_up and link.b.link_up, s.clock + 5.0, "link-connector-up")

    t = vrt.Thread(target=loop, name="link-connector")
    t.start()
    return t
