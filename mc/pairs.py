"""Thread independence of operations that share no object: two threads each run one operation of a check's
own alphabet at the same time, under every schedule with <= K delays where every source line of the listed library
modules is a scheduling point; each thread must get exactly the result it gets when it runs alone.

This is how hidden shared state (a scratch buffer hoisted to class or module scope, a cache keyed too coarsely, a
tokenizer shared between calls) becomes visible for code that takes no locks at all: the statements of the E-shape
properties quantify over inputs, and a library object that is not shared between threads must behave the same
whatever other threads do with *their* objects.
"""
from __future__ import annotations

import sys
import types

from mc import vrt


def trace_modules(prefixes):
    """Every function and method defined in a loaded module whose name starts with one of the prefixes gets LINE events."""
    fns = []
    for name, mod in list(sys.modules.items()):
        if mod is None or not any(name == p or name.startswith(p + ".") for p in prefixes):
            continue
        for v in list(vars(mod).values()):
            if isinstance(v, types.FunctionType) and v.__module__ == name:
                fns.append(v)
            elif isinstance(v, type) and v.__module__ == name:
                for m in list(vars(v).values()):
                    if isinstance(m, (types.FunctionType, property, staticmethod, classmethod)):
                        fns.append(m.__func__ if isinstance(m, (staticmethod, classmethod)) else m)
    return vrt.trace_functions(fns)


def run_pair(devs, budgets, resolve=None, a=None, b=None, prop="C00", warm=True, alone=None, label="thread-pair", part="pair"):
    """resolve = "module:function"; function(desc) -> zero-argument callable returning a JSON-able result."""
    box = {}
    if isinstance(resolve, str):
        import importlib  # noqa: PLC0415

        modname, _, fname = resolve.partition(":")
        mod = importlib.import_module(modname)
        resolve = getattr(mod, fname)
        fresh = getattr(mod, "fresh", None)
    else:
        fresh = None
    if warm:
        # results when run alone (also warms lazily built tables so that first-use initialisation is not what is explored)
        box["alone"] = []
        for d in (a, b):
            if fresh:
                fresh()
            box["alone"].append(_safe(resolve(d)))
    else:
        box["alone"] = list(alone)
    if fresh:
        fresh()  # objects the two operations share by design (one catalogue container used by all protocol threads) are new for every execution
    fa, fb = resolve(a), resolve(b)

    def driver(s):
        res = [None, None]

        def run(i, f):
            res[i] = _safe(f)

        t1 = vrt.Thread(target=run, args=(0, fa), name="op-a")
        t2 = vrt.Thread(target=run, args=(1, fb), name="op-b")
        t1.start()
        t2.start()
        t1.join()
        t2.join()
        box["together"] = res

    sched = vrt.run(driver, devs, budgets, max_steps=400000, max_time=1e6, line_points=True)
    out = {"trace": sched.trace, "v": []}
    case = {"part": part, "a": a, "b": b}
    if sched.harness_failure or sched.driver_exception:
        out["harness"] = (sched.harness_failure or sched.driver_exception)[-1000:]
        out["obs"] = None
        return out
    if sched.outcome != "done":
        out["v"].append((f"{prop}|{label}|execution-{sched.outcome}", {"case": case, "info": sched.deadlock_info}))
        out["obs"] = sched.outcome
        return out
    if not warm:
        import json  # noqa: PLC0415

        from mc.report import jsonable  # noqa: PLC0415

        box["together"] = json.loads(json.dumps(jsonable(box["together"])))  # the alone results crossed a pipe as JSON
    out["obs"] = {"same": box["together"] == box["alone"]}
    for i, nm in enumerate(("a", "b")):
        if box["together"][i] != box["alone"][i]:
            kind = "raises" if isinstance(box["together"][i], dict) and "raised" in box["together"][i] else "differs"
            out["v"].append((f"{prop}|{label}|result-{kind}-from-running-alone|{_kind(case[nm])}+{_kind(case['b' if nm == 'a' else 'a'])}",
                             {"case": case, "which": nm, "alone": _short(box["alone"][i]), "together": _short(box["together"][i])}))
    return out


def _kind(desc):
    return desc[0] if isinstance(desc, (list, tuple)) and desc else str(desc)[:20]


def _short(x):
    s = repr(x)
    return s if len(s) < 400 else s[:400] + "..."


def _safe(f):
    try:
        return f()
    except Exception as exc:  # noqa: BLE001
        return {"raised": type(exc).__name__, "text": str(exc)[:120]}


def explore_pairs(ctx, ops, resolve, prop, k, name, same_too=True):
    """All unordered pairs (and each operation with itself) of `ops` under <= k delays.  Returns (executions, parts)."""
    import itertools  # noqa: PLC0415

    from mc import explore  # noqa: PLC0415

    # ordered pairs: under the default schedule the first thread runs until it blocks, so (a, b) explores "a interrupted by b"
    pairs = list(itertools.permutations(range(len(ops)), 2)) + ([(i, i) for i in range(len(ops))] if same_too else [])
    tot = 0
    parts = []
    for i, j in pairs:
        st = explore.explore(ctx, run_pair, {"sched": k}, f"{name}-{i}-{j}", opts={"resolve": resolve, "a": ops[i], "b": ops[j], "prop": prop}, chunk=8)
        parts.append({"a": _kind(ops[i]), "b": _kind(ops[j]), "executions": st["executions"], "levels_completed": st["levels_completed"]})
        tot += st["executions"]
        if st["levels_completed"] < k:
            ctx.exhaustive = False
        if ctx.out_of_time():
            break
    return tot, parts


def run_part(ctx, ops, prop, k, prefixes=("secsgem.secs",), resolve="checks.pair_ops:resolve"):
    """The whole part for one check: trace, explore every pair, untrace (the enumeration parts that follow must not pay for LINE events)."""
    import importlib  # noqa: PLC0415

    from mc import explore  # noqa: PLC0415

    # run every operation once first: lazily imported library modules must be loaded before their functions can be line-traced
    modname, _, fname = resolve.partition(":")
    rfn = getattr(importlib.import_module(modname), fname)
    for o in ops:
        _safe(rfn(o))
    n = trace_modules(list(prefixes))
    # this part may use at most a quarter of the check's wall-clock budget: the enumeration that follows is the core of the check
    import time  # noqa: PLC0415

    whole = ctx.deadline
    if whole is not None:
        ctx.deadline = min(whole, time.time() + 0.25 * max(0.0, whole - ctx.t0))
    try:
        tot, parts = explore_pairs(ctx, ops, resolve, prop, k, f"{prop.lower()}-pair")
    finally:
        ctx.deadline = whole
    explore.close_pool()
    vrt.untrace_all()
    ctx.setcov("thread_pair_explorations", {"operations": [_kind(o) + ":" + str(o[1])[:40] for o in ops], "pairs": len(parts), "executions": tot,
                                            "delay_bound": k, "functions_line_traced": n})
    ctx.assumptions.append(f"thread-pair part: every pair of {len(ops)} operations on separate objects, every schedule with <= {k} delays at line "
                           "granularity of secsgem.secs.*; each thread must see the result it sees alone")
    return tot


def replay_pair(ctx, case, prop, prefixes=("secsgem.secs",), resolve="checks.pair_ops:resolve"):
    trace_modules(list(prefixes))
    devs = {int(k): v for k, v in case.get("devs", {}).items()}
    r = run_pair(devs, case.get("budgets", {}), resolve=resolve, a=case["a"], b=case["b"], prop=prop)
    ctx.evaluations += 1
    print("replayed:", r.get("obs"))
    for sig, d in r["v"]:
        ctx.violation(sig, d)
