"""History BFS (shape H): explicit-state search where a state is the event history that reaches it.

Live objects with parked threads cannot be copied, so every history is re-executed on fresh real
objects (under the default schedule of the virtual runtime, settling after each event).  All histories
up to depth d0 are executed without deduplication; beyond d0 a history is extended only if its
canonical end state has not been seen before, until closure or depth d1.
"""
from __future__ import annotations

import os
import time

from mc import explore
from mc.report import jhash, jsonable


def _work(task):
    fn, opts, hists = task
    out = []
    for h in hists:
        try:
            res = fn(list(h), **opts)
        except Exception:  # noqa: BLE001
            import traceback  # noqa: PLC0415

            res = {"harness": traceback.format_exc()[-1500:]}
        res["history"] = h
        out.append(res)
    return out


def search(ctx, fn, alphabet, name, d0, d1, opts=None, procs=None, chunk=16, max_states=None):
    """fn(history, **opts) -> {"canon": jsonable, "v": [(sig, detail)], "skip": bool, "harness": str|None}

    Returns stats: states (distinct canonical states), transitions (histories executed = events applied
    at the end of a history), max_depth, exhaustive_depth, closed (bool).
    """
    opts = dict(opts or {})
    procs = procs or int(os.environ.get("VERIF_PROCS", "0")) or min(16, os.cpu_count() or 1)
    pool = explore.get_pool(procs) if procs > 1 and not ctx.replaying else None
    seen = {}
    stats = {"states": 0, "transitions": 0, "skipped": 0, "max_depth": 0, "exhaustive_depth": 0, "closed": False, "per_depth": []}
    # depth 0
    r0 = _work((fn, opts, [[]]))[0]
    if r0.get("harness"):
        ctx.harness_error(f"{name}: initial state: {r0['harness']}")
        return stats
    seen[jhash(r0.get("canon"))] = []
    frontier = [[]]
    complete = True
    for depth in range(1, d1 + 1):
        t0 = time.time()
        hists = [h + [e] for h in frontier for e in alphabet]
        if not hists:
            stats["closed"] = True
            break
        nxt = []
        n_exec = 0
        chunks = [(fn, opts, hists[i:i + chunk]) for i in range(0, len(hists), chunk)]
        it = pool.imap_unordered(_work, chunks) if pool is not None else map(_work, chunks)
        new_states = 0
        for res_list in it:
            for res in res_list:
                if res.get("harness"):
                    ctx.harness_error(f"{name}: {res['harness']} history={res['history']}")
                    continue
                if res.get("skip"):
                    stats["skipped"] += 1
                    continue
                n_exec += 1
                ctx.evaluations += 1
                for sig, detail in res.get("v", ()):
                    detail = dict(detail)
                    detail["case"] = dict(detail.get("case") or {}, history=res["history"], driver=name, opts=opts)
                    ctx.violation(sig, detail)
                key = jhash(res.get("canon"))
                is_new = key not in seen
                if is_new:
                    seen[key] = res["history"]
                    new_states += 1
                    if len(ctx.samples) < 4 and depth >= 2:
                        ctx.sample({"history": res["history"], "state": res.get("canon")})
                if depth <= d0 or is_new:
                    if depth < d1 and not res.get("terminal"):
                        nxt.append(res["history"])
            if ctx.out_of_time():
                complete = False
                break
        stats["transitions"] += n_exec
        stats["per_depth"].append({"depth": depth, "histories": n_exec, "new_states": new_states, "frontier_next": len(nxt),
                                   "wall_s": round(time.time() - t0, 2)})
        if not complete:
            explore.close_pool()
            ctx.capped(f"{name}: wall-clock cap inside depth {depth}")
            break
        stats["max_depth"] = depth
        if depth <= d0:
            stats["exhaustive_depth"] = depth
        # order the frontier deterministically (imap_unordered) so that runs are reproducible
        nxt.sort(key=lambda h: [alphabet.index(e) for e in h])
        frontier = nxt
        if max_states and len(seen) > max_states:
            ctx.capped(f"{name}: state cap {max_states} reached at depth {depth}")
            break
        if depth > d0 and new_states == 0:
            stats["closed"] = True
            break
    stats["states"] = len(seen)
    if not stats["closed"] and complete:
        ctx.note(f"{name}: search stopped at depth bound {d1} before closure (frontier {len(frontier)})")
    return stats


def plain_attrs(obj):
    """Every plain-valued instance attribute of a library object, sorted: for canonical states.  A hand-picked subset of fields can merge
    states that differ in a field the author of the check did not think of (a hidden flag); taking all of them cannot."""
    def plain(v):
        if isinstance(v, (bool, int, float, str, bytes, type(None))):
            return repr(v)
        if isinstance(v, (list, tuple)) and all(isinstance(x, (bool, int, float, str, bytes, type(None))) for x in v):
            return repr(list(v))
        g = getattr(v, "get", None)
        if callable(g) and type(v).__module__.startswith("secsgem.secs"):
            try:
                return repr(g())
            except Exception:  # noqa: BLE001
                return "<unreadable>"
        return None

    out = []
    for n, v in sorted(vars(obj).items()):
        p = plain(v)
        if p is None and isinstance(v, (list, tuple)):
            p = repr([plain(x) for x in v])
        if p is not None:
            out.append((n, p))
    return out


def container_attrs(obj, skip=()):
    """Every container-valued instance attribute (dict / list / set / tuple) of a library object in a comparable summary: keys as they are,
    plain values as they are, other values by type name and size.  Added to a canonical state next to the tables the reference model knows,
    so that a history which leaves something behind in a container the author of the check has never heard of (a cache added by a later
    change) is not merged with a history that does not - merging them would hide everything reachable only from the first."""
    def summary(v, depth=0):
        if isinstance(v, (bool, int, float, str, bytes, type(None))):
            return repr(v)
        if isinstance(v, dict):
            if depth >= 2:
                return f"dict[{len(v)}]"
            return "{" + ", ".join(sorted(f"{k!r}: {summary(x, depth + 1)}" if isinstance(k, (bool, int, float, str, bytes, type(None), tuple))
                                          else f"<{type(k).__name__}>: {summary(x, depth + 1)}" for k, x in v.items())) + "}"
        if isinstance(v, (list, tuple)):
            if depth >= 2:
                return f"{type(v).__name__}[{len(v)}]"
            return "[" + ", ".join(summary(x, depth + 1) for x in v) + "]"
        if isinstance(v, (set, frozenset)):
            return "{" + ", ".join(sorted(summary(x, depth + 1) for x in v)) + "}"
        g = getattr(v, "get", None)
        if callable(g) and type(v).__module__.startswith("secsgem.secs"):
            try:
                return repr(g())
            except Exception:  # noqa: BLE001
                return "<unreadable>"
        return f"<{type(v).__name__}>"

    out = []
    for n, v in sorted(vars(obj).items()):
        if n in skip or not isinstance(v, (dict, list, tuple, set, frozenset)):
            continue
        out.append((n, summary(v)))
    return out
