"""Setup self-test: the tree under test imports from /repo, schemas are present, reference codec sanity."""
from __future__ import annotations

import json
import os
import sys


def main() -> int:
    from mc import loader
    from mc.report import SCHEMA

    sg = loader.load()
    print("secsgem loaded from", os.path.dirname(sg.__file__))
    with open(SCHEMA) as f:
        json.load(f)
    from ref import e5

    node = ("L", [("U2", [1, 65535]), ("A", b"hi"), ("L", [])])
    data = e5.enc(node)
    assert data == bytes.fromhex("0103a9040001ffff4102686901 00".replace(" ", "")), data.hex()
    back, pos = e5.dec(data)
    assert pos == len(data) and e5.enc(back) == data
    ok = True
    try:
        from mc import vrt_selftest  # noqa: PLC0415
    except ImportError:
        vrt_selftest = None
    if vrt_selftest is not None:
        ok = vrt_selftest.main() == 0
    # kernel-model conformance against real loopback sockets: informative (loopback may be unavailable in a sandbox), never fatal
    try:
        from mc import vnet_conformance  # noqa: PLC0415

        rc = vnet_conformance.main()
        print("kernel-model conformance:", "ok" if rc == 0 else f"differences (exit {rc}) - see lines above; not fatal for setup")
    except Exception as exc:  # noqa: BLE001
        print("kernel-model conformance could not run (not fatal):", repr(exc))
    print("selftest", "ok" if ok else "FAILED")
    return 0 if ok else 1


if __name__ == "__main__":
    sys.exit(main())
