"""Load the secsgem tree under test from $VERIF_REPO (default /repo) and nothing else.

Nothing is cached between runs: every check imports the current working tree, so
"rebuild from the working tree" is just "import".
"""
from __future__ import annotations

import logging
import os
import sys

REPO = os.environ.get("VERIF_REPO", "/repo")
_loaded = None


def load():
    """Import secsgem from REPO, assert its origin, silence logging. Idempotent."""
    global _loaded
    if _loaded is not None:
        return _loaded
    repo = os.path.realpath(REPO)
    # drop other entries pointing at a secsgem checkout, then put ours first
    sys.path[:] = [p for p in sys.path if os.path.realpath(p or ".") != repo]
    sys.path.insert(0, repo)
    os.environ.setdefault("SECSGEM_VERIF", "1")  # guard name recorded in MANIFEST.hooks (unused by the source)
    import secsgem  # noqa: PLC0415
    import secsgem.common  # noqa: PLC0415,F401
    import secsgem.gem  # noqa: PLC0415,F401
    import secsgem.hsms  # noqa: PLC0415,F401
    import secsgem.secs  # noqa: PLC0415,F401
    import secsgem.secsi  # noqa: PLC0415,F401

    origin = os.path.realpath(secsgem.__file__)
    if not origin.startswith(repo + os.sep):
        raise RuntimeError(f"secsgem imported from {origin}, expected under {repo}")
    # The library formats every message it logs and the logging module takes real locks,
    # which a cooperative scheduler must never meet.
    logging.disable(logging.CRITICAL)
    _loaded = secsgem
    return secsgem


def secsgem_modules():
    load()
    return [m for n, m in list(sys.modules.items()) if (n == "secsgem" or n.startswith("secsgem.")) and m is not None]


_shimmed = False


def install_shims():
    """Rebind stdlib concurrency/time/io modules inside every secsgem module to the virtual runtime.

    secsgem writes `import threading` etc. and resolves attributes at call time, so rebinding the module
    global is enough; names imported with `from threading import X` are rebound by identity as well.
    """
    global _shimmed
    load()
    if _shimmed:
        return
    import queue  # noqa: PLC0415
    import random  # noqa: PLC0415
    import select  # noqa: PLC0415
    import socket  # noqa: PLC0415
    import threading  # noqa: PLC0415
    import time  # noqa: PLC0415

    from mc import vrt  # noqa: PLC0415

    try:
        from mc import vnet  # noqa: PLC0415
    except ImportError:
        vnet = None

    modmap = {threading: vrt.vthreading, queue: vrt.vqueue, time: vrt.vtime, random: vrt.vrandom}
    if vnet is not None:
        modmap[select] = vnet.vselect
        modmap[socket] = vnet.vsocket
        try:
            import serial  # noqa: PLC0415

            modmap[serial] = vnet.vserial
        except ImportError:
            pass
    objmap = {
        threading.Thread: vrt.Thread, threading.Event: vrt.Event, threading.Lock: vrt.Lock, threading.RLock: vrt.RLock,
        threading.Condition: vrt.Condition, threading.Timer: vrt.Timer, queue.Queue: vrt.Queue, queue.Empty: vrt.Empty,
        time.sleep: vrt.vtime.sleep, time.time: vrt.vtime.time, time.monotonic: vrt.vtime.monotonic, random.randint: vrt.vrandom.randint,
    }
    for mod in secsgem_modules():
        for name, val in list(vars(mod).items()):
            try:
                if val in modmap:
                    setattr(mod, name, modmap[val])
                elif val in objmap:
                    setattr(mod, name, objmap[val])
            except TypeError:
                continue  # unhashable module global
    _shimmed = True
