"""Load the secsgem tree under test from $VERIF_REPO (default /repo) and nothing else.

Nothing is cached between runs: every check imports the current working tree, so
"rebuild from the working tree" is just "import".
"""
from __future__ import annotations

import logging
import os
import sys

REPO = os.environ.get("VERIF_REPO", "/repo")
_loaded = None


def load():
    """Import secsgem from REPO, assert its origin, silence logging. Idempotent."""
    global _loaded
    if _loaded is not None:
        return _loaded
    repo = os.path.realpath(REPO)
    # drop other entries pointing at a secsgem checkout, then put ours first
    sys.path[:] = [p for p in sys.path if os.path.realpath(p or ".") != repo]
    sys.path.insert(0, repo)
    os.environ.setdefault("SECSGEM_VERIF", "1")  # guard name recorded in MANIFEST.hooks (unused by the source)
    import secsgem  # noqa: PLC0415
    import secsgem.common  # noqa: PLC0415,F401
    import secsgem.gem  # noqa: PLC0415,F401
    import secsgem.hsms  # noqa: PLC0415,F401
    import secsgem.secs  # noqa: PLC0415,F401
    import secsgem.secsi  # noqa: PLC0415,F401

    origin = os.path.realpath(secsgem.__file__)
    if not origin.startswith(repo + os.sep):
        raise RuntimeError(f"secsgem imported from {origin}, expected under {repo}")
    # The library formats every message it logs and the logging module takes real locks,
    # which a cooperative scheduler must never meet.
    logging.disable(logging.CRITICAL)
    _loaded = secsgem
    return secsgem


def secsgem_modules():
    load()
    return [m for n, m in list(sys.modules.items()) if (n == "secsgem" or n.startswith("secsgem.")) and m is not None]
