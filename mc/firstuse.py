"""First use in a process: two threads perform their *first ever* operation of the interpreter at the same time.

The thread-pair part (mc/pairs.py) runs in a long-lived worker in which every operation has already been executed, so
state that the library builds lazily on first use (a class-level table filled by the first call, a module imported by
the first call, a cache primed by the first call) is always complete there.  This part re-creates the first use for
every execution: the worker - a process that has *imported* the library and executed nothing else of it - forks a child
per execution; in the child both threads construct their own objects and run their operation under the given schedule
(every source line of the listed library modules is a scheduling point), the child reports the results over a pipe and
exits.  The oracle is the one of the pair part: each thread must get exactly the result the same operation gives when it
is the only thing a pristine process does (computed once per operation, also in a forked child).

A lazy `import` executed by an operation is atomic in the exploration: CPython serialises imports with real (OS)
module locks which the virtual scheduler does not own, so no scheduling point is offered inside an import statement;
the points before and after it are offered, which is where a check-then-import race shows.  Functions of modules that
are loaded by such an import become line-traced as soon as the import returns.
"""
from __future__ import annotations

import builtins
import importlib
import json
import os
import select
import signal
import sys
import traceback
import warnings

from mc import pairs, vrt
from mc.report import jhash, jsonable

_ALONE: dict = {}
CHILD_TIMEOUT = 180.0


def _in_child(fn):
    """Run fn() in a forked child of this (pristine) process and return its JSON-able result."""
    r, w = os.pipe()
    sys.stdout.flush()
    sys.stderr.flush()
    with warnings.catch_warnings():
        warnings.simplefilter("ignore")
        pid = os.fork()
    if pid == 0:
        try:
            os.close(r)
            from mc.explore import die_with_parent  # noqa: PLC0415

            die_with_parent()
            try:
                data = json.dumps(jsonable(fn()))
            except BaseException:  # noqa: BLE001
                data = json.dumps({"harness": "first-use child: " + traceback.format_exc()[-900:]})
            b = data.encode()
            while b:
                n = os.write(w, b)
                b = b[n:]
        finally:
            os._exit(0)
    os.close(w)
    chunks = []
    try:
        while True:
            ready, _, _ = select.select([r], [], [], CHILD_TIMEOUT)
            if not ready:
                os.kill(pid, signal.SIGKILL)
                os.waitpid(pid, 0)
                return {"harness": f"first-use child gave no answer within {CHILD_TIMEOUT:.0f} s (killed)"}
            c = os.read(r, 1 << 16)
            if not c:
                break
            chunks.append(c)
    finally:
        os.close(r)
    os.waitpid(pid, 0)
    if not chunks:
        return {"harness": "first-use child died without an answer"}
    return json.loads(b"".join(chunks))


def _hook_imports(prefixes):
    real = builtins.__import__
    real_im = importlib.import_module

    def _after(n):
        if len(sys.modules) != n:
            pairs.trace_modules(list(prefixes))

    def imp(name, globals=None, locals=None, fromlist=(), level=0):  # noqa: A002
        vrt._no_preempt += 1
        n = len(sys.modules)
        try:
            return real(name, globals, locals, fromlist, level)
        finally:
            vrt._no_preempt -= 1
            _after(n)

    def imod(name, package=None):
        vrt._no_preempt += 1
        n = len(sys.modules)
        try:
            return real_im(name, package)
        finally:
            vrt._no_preempt -= 1
            _after(n)

    builtins.__import__ = imp
    importlib.import_module = imod


def _resolver(resolve):
    modname, _, fname = resolve.partition(":")
    mod = importlib.import_module(modname)
    return getattr(mod, fname), getattr(mod, "fresh", None)


def _alone(resolve, desc):
    key = jhash([resolve, desc])
    if key not in _ALONE:
        def fn():
            rfn, fresh = _resolver(resolve)
            if fresh:
                fresh()
            return {"r": pairs._safe(rfn(desc))}
        _ALONE[key] = _in_child(fn)
    return _ALONE[key]


def run_first_use(devs, budgets, resolve=None, a=None, b=None, prop="C00", prefixes=("secsgem.secs",)):
    alone = []
    for d in (a, b):
        r = _alone(resolve, d)
        if "harness" in r:
            return {"trace": [], "v": [], "obs": None, "harness": r["harness"]}
        alone.append(r["r"])

    def fn():
        pairs.trace_modules(list(prefixes))
        _hook_imports(prefixes)
        return pairs.run_pair(devs, budgets, resolve=resolve, a=a, b=b, prop=prop, warm=False, alone=alone, label="first-use", part="first-use")

    out = _in_child(fn)
    if "trace" not in out:
        out = {"trace": [], "v": [], "obs": None, "harness": out.get("harness", "first-use child: malformed answer")}
    out["trace"] = [tuple(x) for x in out["trace"]]
    out["v"] = [tuple(x) for x in out.get("v", [])]
    return out


def run_part(ctx, ops, prop, k, prefixes=("secsgem.secs",), resolve="checks.pair_ops:resolve", same_too=True):
    """Must run before anything else of the check touches the library: the workers are forked from this process and
    have to be pristine (library imported, nothing executed)."""
    import itertools  # noqa: PLC0415
    import time  # noqa: PLC0415

    from mc import explore  # noqa: PLC0415

    explore.close_pool()
    n = pairs.trace_modules(list(prefixes))
    whole = ctx.deadline
    if whole is not None:
        ctx.deadline = min(whole, time.time() + 0.4 * max(0.0, whole - ctx.t0))
    tot = 0
    parts = []
    outcomes = 0
    try:
        order = list(itertools.permutations(range(len(ops)), 2)) + ([(i, i) for i in range(len(ops))] if same_too else [])
        for i, j in order:
            st = explore.explore(ctx, run_first_use, {"sched": k}, f"{prop.lower()}-first-use-{i}-{j}",
                                 opts={"resolve": resolve, "a": ops[i], "b": ops[j], "prop": prop, "prefixes": tuple(prefixes)}, chunk=4)
            parts.append({"a": pairs._kind(ops[i]), "b": pairs._kind(ops[j]), "executions": st["executions"], "levels_completed": st["levels_completed"],
                          "choice_points": st.get("choice_points_per_execution")})
            tot += st["executions"]
            outcomes = max(outcomes, st["distinct_outcomes"])
            if st["levels_completed"] < k:
                ctx.exhaustive = False
            if ctx.out_of_time():
                break
    finally:
        ctx.deadline = whole
        explore.close_pool()
        vrt.untrace_all()
    ctx.setcov("first_use_explorations", {"operations": [pairs._kind(o) + ":" + str(o[1])[:40] for o in ops], "pairs": len(parts), "executions": tot,
                                          "delay_bound": k, "functions_line_traced_before_lazy_imports": n, "per_pair": parts[:12],
                                          "one_forked_child_per_execution": True})
    ctx.assumptions.append(f"first-use part: every ordered pair of {len(ops)} operations as the first two operations of a process (forked child per "
                           f"execution), every schedule with <= {k} delays at line granularity of {'/'.join(prefixes)}.*; lazy imports are atomic")
    return tot


def replay(ctx, case, prop):
    opts = case.get("opts", {})
    prefixes = tuple(opts.get("prefixes", ("secsgem.secs",)))
    pairs.trace_modules(list(prefixes))
    devs = {int(k): v for k, v in case.get("devs", {}).items()}
    r = run_first_use(devs, case.get("budgets", {}), resolve=opts.get("resolve", "checks.pair_ops:resolve"), a=case["a"], b=case["b"], prop=prop,
                      prefixes=prefixes)
    ctx.evaluations += 1
    print("replayed:", r.get("obs"))
    for sig, d in r["v"]:
        ctx.violation(sig, d)
