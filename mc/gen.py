"""Bounded-exhaustive generators: boundary sets, leaf families, tree shapes, cut sets.

Every generated case is a small JSON-native *descriptor*; node_from_desc() rebuilds the reference
node (see ref/e5.py) from it, so huge payloads never travel between processes or into replay files.
"""
from __future__ import annotations

import itertools
import struct

from ref import e5

INT_CODES = ["I1", "I2", "I4", "I8", "U1", "U2", "U4", "U8"]
FLOAT_CODES = ["F4", "F8"]
LEAF_CODES = ["B", "BOOLEAN", "A", "J"] + INT_CODES + FLOAT_CODES


def int_boundary(code):
    lo, hi = e5.int_range(code)
    vals = [lo, lo + 1, -1, 0, 1, hi - 1, hi]
    # every byte of a multi-byte value distinct, so a byte-order slip is visible
    w, _ = e5.INT_W[code]
    vals.append(int.from_bytes(bytes(range(1, w + 1)), "big"))
    out = []
    for v in vals:
        if lo <= v <= hi and v not in out:
            out.append(v)
    return out


def f32(bits: int) -> float:
    return struct.unpack(">f", bits.to_bytes(4, "big"))[0]


def f64(bits: int) -> float:
    return struct.unpack(">d", bits.to_bytes(8, "big"))[0]


def float_boundary(code):
    if code == "F4":
        pats = [0x00000000, 0x80000000, 0x00000001, 0x007FFFFF, 0x00800000, 0x3F800000, 0xBF800000,
                0x3DCCCCCD, 0x7F7FFFFF, 0xFF7FFFFF, 0x7F7FFFFE, 0x01020304]
        return [f32(p) for p in pats]
    pats = [0x0, 0x8000000000000000, 0x1, 0x000FFFFFFFFFFFFF, 0x0010000000000000, 0x3FF0000000000000,
            0xBFF0000000000000, 0x3FB999999999999A, 0x7FEFFFFFFFFFFFFF, 0xFFEFFFFFFFFFFFFF,
            0x7FEFFFFFFFFFFFFE, 0x0102030405060708]
    return [f64(p) for p in pats]


def boundary(code):
    if code in e5.INT_W:
        return int_boundary(code)
    if code in FLOAT_CODES:
        return float_boundary(code)
    if code == "BOOLEAN":
        return [False, True]
    # byte-valued types: quotes, brackets, DEL, C1 controls, katakana range, yen/overline positions
    return [0x00, 0x01, 0x20, 0x22, 0x27, 0x3C, 0x3E, 0x41, 0x5C, 0x7E, 0x7F, 0x80, 0xA0, 0xA1, 0xB1, 0xDF, 0xE0, 0xFF]


def boundary_counts(code, limits=(0xFF, 0xFFFF)):
    """Element counts 0..3 plus every count whose payload length straddles a length-byte boundary."""
    w = e5.ELEM[code]
    out = [0, 1, 2, 3]
    for lim in limits:
        for n in (lim // w, lim // w + 1):
            if n not in out:
                out.append(n)
    if 0xFFFF in limits:
        # a payload whose three length bytes are pairwise different (01 02 08), so that a mixed-up length byte shows
        out.append(0x010208 // w)
    return out


def cyc(vals, n, rot=0):
    k = len(vals)
    return [vals[(i + rot) % k] for i in range(n)]


def node_from_desc(d):
    """descriptor -> reference node.

    {"code": c, "vals": [...]}                    explicit (bytes types: list of ints)
    {"code": c, "n": n, "rot": r}                boundary set of c cycled to n elements, rotated by r
    {"code": "L", "items": [desc, ...]}
    {"code": "F4"/"F8", "bits": [int, ...]}      floats by bit pattern
    """
    code = d["code"]
    if code == "L":
        return ("L", [node_from_desc(x) for x in d["items"]])
    if "bits" in d:
        return (code, [f32(b) if code == "F4" else f64(b) for b in d["bits"]])
    vals = d["vals"] if "vals" in d else cyc(boundary(code), d["n"], d.get("rot", 0))
    if code in ("B", "A", "J"):
        return (code, bytes(vals))
    if code == "BOOLEAN":
        return (code, [bool(v) for v in vals])
    return (code, list(vals))


def leaf_family(code, counts, small_exhaustive=True):
    """Descriptors for one leaf type: every boundary value alone, rotations for small n, one or two for big n."""
    b = boundary(code)
    for n in counts:
        if n == 0:
            yield {"code": code, "n": 0, "rot": 0}
        elif n <= 3 and small_exhaustive:
            for rot in range(len(b)):
                yield {"code": code, "n": n, "rot": rot}
        else:
            yield {"code": code, "n": n, "rot": 0}
            yield {"code": code, "n": n, "rot": 5}


LEAF_ALPHABET = [
    {"code": "U1", "vals": [7]},
    {"code": "A", "vals": [0x68, 0x69]},
    {"code": "B", "vals": [0xDE, 0xAD]},
    {"code": "BOOLEAN", "vals": [1]},
    {"code": "I2", "vals": [-2, 300]},
    {"code": "F8", "vals": [1.5]},
    {"code": "U4", "vals": []},
]


def trees(depth, branching, leaves=None):
    """All rooted ordered trees (as list descriptors) up to depth/branching over a leaf alphabet.

    depth 0 -> the leaves themselves; a list at depth k has 0..branching children of depth < k.
    """
    leaves = LEAF_ALPHABET if leaves is None else leaves
    level = list(leaves)
    allnodes = list(level)
    for _ in range(depth):
        new = []
        for k in range(branching + 1):
            for combo in itertools.product(allnodes, repeat=k):
                new.append({"code": "L", "items": list(combo)})
        # keep only those not yet present (a list of depth d contains at least one child of depth d-1 or is empty)
        seen = {repr(x) for x in allnodes}
        fresh = [x for x in new if repr(x) not in seen]
        allnodes = allnodes + fresh
    return allnodes


def cut_sets(length, max_cuts):
    """All subsets of cut positions (1..length-1) up to size max_cuts, plus the all-single-bytes partition."""
    positions = range(1, length)
    for k in range(max_cuts + 1):
        for c in itertools.combinations(positions, k):
            yield list(c)
    if length - 1 > max_cuts:
        yield list(positions)


def split_at(data: bytes, cuts):
    out, last = [], 0
    for c in cuts:
        out.append(data[last:c])
        last = c
    out.append(data[last:])
    return [x for x in out if x]


def rotate(seq, seed):
    seq = list(seq)
    if not seq:
        return seq
    k = seed % len(seq)
    return seq[k:] + seq[:k]
