"""Virtual runtime: a controlled scheduler that owns threads, locks, events, conditions, queues, timers and time.

One virtual thread runs at a time.  Each virtual thread is a real OS thread parked on its own raw
_thread lock (the baton); the running thread executes scheduler logic inline at every scheduling
point and hands the baton directly to the next thread.

An execution is fully determined by (budgets, deviations): `deviations` maps the index of an *offered*
choice point to a non-default choice.  Default scheduling is non-pre-emptive priority order (creation
order); a scheduling deviation ("delay") demotes the running thread to the lowest priority.
"""
from __future__ import annotations

import _thread
import collections
import sys
import traceback

NEW, RUNNABLE, BLOCKED, DONE = "new", "runnable", "blocked", "done"


class KillThread(BaseException):
    """Raised inside parked virtual threads at teardown."""


class Divergence(Exception):
    """Replay of a recorded prefix met a different choice point than recorded."""


class HarnessError(Exception):
    pass


SCHED: "Sched | None" = None
_by_ident: dict[int, "VThread"] = {}


def cur_thread():
    return _by_ident.get(_thread.get_ident())


# OS threads are pooled and reused across executions: creating and destroying threads (mmap/munmap of
# their stacks) is serialised machine-wide in this sandbox (53 us alone -> 670 us with 16 workers),
# whereas baton hand-offs between existing threads scale perfectly.
_POOL: list["_Worker"] = []


class _Worker:
    def __init__(self):
        self.wake = _thread.allocate_lock()
        self.wake.acquire()
        self.vt = None
        _thread.start_new_thread(self._loop, ())

    def _loop(self):
        while True:
            self.wake.acquire()
            vt, self.vt = self.vt, None
            try:
                vt._bootstrap()
            finally:
                _POOL.append(self)


def _start_os_thread(vt):
    w = _POOL.pop() if _POOL else _Worker()
    w.vt = vt
    w.wake.release()


def _after_fork():
    _POOL.clear()
    _by_ident.clear()


import os as _os  # noqa: E402

_os.register_at_fork(after_in_child=_after_fork)


class VThread:
    def __init__(self, sched, target, args=(), kwargs=None, name=None, daemon=None):
        self.sched = sched
        self.target = target
        self.args = args
        self.kwargs = kwargs or {}
        self.index = len(sched.threads)
        self.name = name or f"vthread-{self.index}"
        self.daemon = bool(daemon)
        self.baton = _thread.allocate_lock()
        self.baton.acquire()
        self.dead = _thread.allocate_lock()
        self.dead.acquire()
        self.state = NEW
        self.pred = None
        self.deadline = None
        self.why = ""
        self.kill = False
        self.timed_out = False
        self.error = None
        self.ident = None
        self.is_driver = False
        # spin detection
        self.last_back_jump = None
        self.back_jump_repeat = 0
        self.steps_mark = -1

    # -- scheduler view
    def enabled(self):
        if self.state == RUNNABLE:
            return True
        if self.state == BLOCKED:
            if self.pred is not None and self.pred():
                return True
            if self.deadline is not None and self.sched.clock >= self.deadline:
                return True
        return False

    def _bootstrap(self):
        self.ident = _thread.get_ident()
        _by_ident[self.ident] = self
        sched = self.sched
        try:
            self.baton.acquire()  # parked until first scheduled
            if self.kill or sched.ending:
                return
            try:
                self.target(*self.args, **self.kwargs)
            except KillThread:
                return
            except BaseException as exc:  # noqa: BLE001
                if isinstance(exc, (HarnessError, Divergence)):
                    sched.harness_failure = traceback.format_exc()
                self.error = exc
                sched.thread_errors.append((self.name, repr(exc), traceback.format_exc()[-1200:]))
                if self.is_driver:
                    sched.driver_exception = traceback.format_exc()
        finally:
            self.state = DONE
            _by_ident.pop(self.ident, None)
            try:
                if not (self.kill or sched.ending):
                    if self.is_driver:
                        sched._end("done")
                    else:
                        sched._thread_exit(self)
            finally:
                self.dead.release()


class Sched:
    def __init__(self, deviations=None, budgets=None, max_steps=200000, max_time=3600.0, line_points=True, rand=None,
                 preempt_mode=False):
        self.threads: list[VThread] = []
        self.prio: list[VThread] = []
        self.current: VThread | None = None
        self.clock = 0.0
        self.steps = 0
        self.switches = 0
        self.deviations = dict(deviations or {})
        self.budgets = dict(budgets or {})  # kind -> max deviations offered
        self.used = collections.Counter()
        self.trace: list[tuple[str, int, int]] = []  # offered points: (kind, n_options, chosen)
        self.max_steps = max_steps
        self.max_time = max_time
        self.line_points = line_points
        self.preempt_mode = preempt_mode
        self.ending = False
        self.outcome = None
        self.deadlock_info = None
        self.thread_errors = []
        self.driver_exception = None
        self.harness_failure = None
        self.main_lock = _thread.allocate_lock()
        self.main_lock.acquire()
        self.rand = list(rand or [])
        self.log = []  # harness observations (appended by env models / drivers)
        self.multi_enabled_points = 0
        self.time_advances = 0
        self.objects = 0
        self.spin_yields = 0
        self.outcome_hint = None
        self.debug = False
        self.switch_log = []

    # ------------------------------------------------------------------ choices
    def choose(self, n, kind):
        """Environment or scheduling choice among n options; option 0 is the default and free."""
        if n <= 1 or getattr(self, "frozen", False):
            return 0  # frozen: a driver's set-up phase runs under the default schedule, no choice is offered
        if self.used[kind] >= self.budgets.get(kind, 0):
            return 0  # budget exhausted: not offered
        idx = len(self.trace)
        c = self.deviations.get(idx, 0)
        if c >= n:
            raise Divergence(f"choice point {idx} ({kind}) offers {n} options, recorded choice {c}")
        if c:
            self.used[kind] += 1
            if self.debug:
                import traceback as _tb  # noqa: PLC0415

                fr = [f for f in _tb.extract_stack(limit=16) if "/repo/" in f.filename or "/checks/" in f.filename]
                self.switch_log.append((round(self.clock, 2), "DEVIATION", idx, kind, c, self.current.name[-28:] if self.current else None,
                                        [f"{f.name}:{f.lineno}" for f in fr[-3:]]))
        self.trace.append((kind, n, c))
        return c

    # ------------------------------------------------------------------ thread management
    def spawn(self, target, args=(), kwargs=None, name=None, daemon=None, start=True):
        t = VThread(self, target, args, kwargs, name, daemon)
        self.threads.append(t)
        if start:
            self.start_thread(t)
        return t

    def start_thread(self, t):
        if t.state != NEW:
            raise RuntimeError("threads can only be started once")
        t.state = RUNNABLE
        self.prio.append(t)
        _start_os_thread(t)

    def _enabled_list(self):
        return [t for t in self.prio if t.enabled()]

    def _pick(self):
        """Next thread to run: highest priority enabled; advance virtual time if nobody is enabled."""
        while True:
            for t in self.prio:
                if t.enabled():
                    return t
            deadlines = [t.deadline for t in self.prio if t.state == BLOCKED and t.deadline is not None]
            if not deadlines:
                return None
            nxt = min(deadlines)
            if nxt > self.max_time:
                self.outcome_hint = "time_horizon"
                return None
            if nxt > self.clock:
                self.clock = nxt
                self.time_advances += 1

    def _switch(self, cur, nxt):
        if nxt is cur:
            return
        self.current = nxt
        self.switches += 1
        if self.debug:
            import traceback as _tb  # noqa: PLC0415

            fr = [f for f in _tb.extract_stack(limit=14) if "/repo/" in f.filename]
            self.switch_log.append((round(self.clock, 2), cur.name[-28:], "->", nxt.name[-28:], cur.state, cur.why,
                                    (fr[-1].name + ":" + str(fr[-1].lineno)) if fr else ""))
        nxt.baton.release()
        cur.baton.acquire()
        if cur.kill or self.ending:
            raise KillThread

    def _end(self, outcome, info=None):
        """Finish the execution (called by the thread that detects the end)."""
        if not self.ending:
            self.ending = True
            self.outcome = outcome
            self.deadlock_info = info
            self.main_lock.release()

    def _thread_exit(self, t):
        if t in self.prio:
            self.prio.remove(t)
        nxt = self._choose_next()
        if nxt is None:
            self._stuck()
            return
        self.current = nxt
        self.switches += 1
        nxt.baton.release()

    def _stuck(self):
        info = [(t.name, t.state, t.why) for t in self.threads if t.state != DONE]
        hint = self.outcome_hint
        self._end(hint or "deadlock", info)

    # ------------------------------------------------------------------ scheduling points
    def point(self, kind="op"):
        t = self.current
        if self.ending:
            ct = cur_thread()
            if ct is not None and ct.kill:
                raise KillThread
            return
        if t is None or t.ident != _thread.get_ident():
            return  # code running outside the scheduler's current thread (harness main thread)
        self.steps += 1
        if self.steps > self.max_steps:
            self._end("step_horizon", [(x.name, x.state, x.why) for x in self.threads if x.state != DONE])
            self._park_forever(t)
        if self.used["sched"] >= self.budgets.get("sched", 0):
            return
        en = None
        for x in self.prio:
            if x is not t and x.enabled():
                en = x
                break
        if en is None:
            return
        self.multi_enabled_points += 1
        if self.preempt_mode:
            ens = [x for x in self.prio if x is not t and x.enabled()]
            c = self.choose(1 + len(ens), "sched")
            if c:
                self._switch_runnable(t, ens[c - 1])
            return
        c = self.choose(2, "sched")
        if c == 1:
            # delay: the running thread goes to the back of the priority order
            self.prio.remove(t)
            self.prio.append(t)
            nxt = self._choose_next()
            self._switch_runnable(t, nxt)

    def _choose_next(self):
        """Highest-priority enabled thread, with further (budgeted) delays of the candidate."""
        while True:
            cand = self._pick()
            if cand is None:
                return None
            if self.used["sched"] < self.budgets.get("sched", 0) and not self.preempt_mode:
                other = False
                for x in self.prio:
                    if x is not cand and x.enabled():
                        other = True
                        break
                if other:
                    self.multi_enabled_points += 1
                    if self.choose(2, "sched"):
                        self.prio.remove(cand)
                        self.prio.append(cand)
                        continue
            return cand

    def _switch_runnable(self, t, nxt):
        if nxt is None or nxt is t:
            return
        t.state = RUNNABLE
        self._switch(t, nxt)

    def _park_forever(self, t):
        t.baton.acquire()
        raise KillThread

    def block(self, pred, deadline=None, why=""):
        """Block the current thread until pred() holds or the deadline passes. Returns True if pred holds."""
        t = self.current
        if self.ending:
            raise KillThread
        if cur_thread() is not t:
            raise HarnessError(f"block() called outside the scheduled thread ({why})")
        if pred is not None and pred():
            return True
        t.pred, t.deadline, t.why, t.state = pred, deadline, why, BLOCKED
        nxt = self._choose_next()
        if nxt is None:
            self._stuck()
            self._park_forever(t)
        if nxt is not t:
            self._switch(t, nxt)
        t.state = RUNNABLE
        ok = pred() if pred is not None else False
        t.pred, t.deadline, t.why = None, None, ""
        return ok

    def yield_to_others(self, why="spin"):
        """The current thread spins: disable it until some other thread has run (or time advanced)."""
        mark = (self.switches, self.time_advances)
        # fairness: a spinner goes to the back of the priority order, otherwise two spinners of high priority hand the processor to
        # each other for ever and the thread both are waiting for never runs
        t = self.current
        if t in self.prio:
            self.prio.remove(t)
            self.prio.append(t)
        return self.block(lambda: (self.switches, self.time_advances) != mark, None, why)

    # ------------------------------------------------------------------ driver-side operations
    def settle(self):
        """Driver: wait until no other thread is enabled (quiescence); virtual time does not advance."""
        t = self.current

        def quiet():
            return not any(x.enabled() for x in self.prio if x is not t)

        self.block(quiet, None, "settle")

    def pending_deadlines(self):
        return sorted({round(x.deadline - self.clock, 6) for x in self.prio if x.state == BLOCKED and x.deadline is not None})

    def advance(self, dt=None):
        """Driver: advance virtual time to the earliest pending deadline (or by dt), then settle."""
        dl = [x.deadline for x in self.prio if x.state == BLOCKED and x.deadline is not None and x is not self.current]
        if dt is not None:
            self.clock += dt
        elif dl:
            self.clock = max(self.clock, min(dl))
        else:
            return False
        self.time_advances += 1
        self.settle()
        return True

    def randint(self, a, b):
        if self.rand:
            v = self.rand.pop(0)
            return max(a, min(b, v))
        return a


def run(driver, deviations=None, budgets=None, debug=False, **opts):
    """Run one execution of driver(sched) under a fresh scheduler; returns the Sched with outcome set."""
    global SCHED
    if SCHED is not None:
        raise HarnessError("nested executions are not supported")
    sched = Sched(deviations, budgets, **opts)
    sched.debug = debug
    SCHED = sched
    try:
        t = VThread(sched, driver, (sched,), name="driver")
        t.is_driver = True
        sched.threads.append(t)
        t.state = RUNNABLE
        sched.prio.append(t)
        sched.current = t
        _start_os_thread(t)
        t.baton.release()
        sched.main_lock.acquire()
        # teardown: kill every thread that is still parked
        sched.ending = True
        leaked = []
        for x in list(sched.threads):
            if x.state == NEW:
                continue
            if x.dead.acquire(False):
                continue
            x.kill = True
            try:
                x.baton.release()
            except RuntimeError:
                pass
            if not x.dead.acquire(True, 30):  # real seconds; generous, the machine may be heavily loaded
                leaked.append(x.name)
        if leaked:
            raise HarnessError(f"threads did not terminate at teardown: {leaked}")
    finally:
        SCHED = None
    return sched


# ====================================================================== shims
def _s():
    s = SCHED
    if s is None:
        raise HarnessError("virtual runtime primitive used outside an execution")
    return s


class Lock:
    def __init__(self):
        self._locked = False

    def acquire(self, blocking=True, timeout=-1):
        s = SCHED
        if s is None:  # outside an execution there is a single thread: a plain flag
            if self._locked:
                raise HarnessError("lock already held outside an execution")
            self._locked = True
            return True
        s.point("lock")
        if self._locked:
            if not blocking:
                return False
            dl = None if timeout is None or timeout < 0 else s.clock + timeout
            if not s.block(lambda: not self._locked, dl, "lock"):
                return False
        self._locked = True
        return True

    def release(self):
        if not self._locked:
            raise RuntimeError("release unlocked lock")
        self._locked = False
        s = SCHED
        if s is not None and not s.ending:
            s.point("unlock")

    def locked(self):
        return self._locked

    __enter__ = acquire

    def __exit__(self, *a):
        self.release()


class RLock:
    def __init__(self):
        self._owner = None
        self._count = 0

    def acquire(self, blocking=True, timeout=-1):
        s = SCHED
        if s is None:  # outside an execution there is a single thread: only the recursion count matters
            self._owner = "main"
            self._count += 1
            return True
        me = s.current
        if self._owner is me:
            self._count += 1
            return True
        s.point("lock")
        if self._owner is not None:
            if not blocking:
                return False
            dl = None if timeout is None or timeout < 0 else s.clock + timeout
            if not s.block(lambda: self._owner is None, dl, "rlock"):
                return False
        self._owner = me
        self._count = 1
        return True

    def release(self):
        s = SCHED
        if s is None or s.ending:
            self._count = max(0, self._count - 1)
            if not self._count:
                self._owner = None
            return
        if self._owner is not s.current:
            raise RuntimeError("cannot release un-acquired lock")
        self._count -= 1
        if not self._count:
            self._owner = None
            s.point("unlock")

    __enter__ = acquire

    def __exit__(self, *a):
        self.release()

    # used by Condition
    def _release_save(self):
        st = (self._owner, self._count)
        self._owner, self._count = None, 0
        return st

    def _acquire_restore(self, st):
        s = _s()
        if self._owner is not None:
            s.block(lambda: self._owner is None, None, "rlock-reacquire")
        self._owner, self._count = st

    def _is_owned(self):
        return self._owner is _s().current


class Condition:
    def __init__(self, lock=None):
        self._lock = lock if lock is not None else RLock()
        self._waiters = []
        self.acquire = self._lock.acquire
        self.release = self._lock.release

    def __enter__(self):
        return self._lock.acquire()

    def __exit__(self, *a):
        self._lock.release()

    def wait(self, timeout=None):
        s = _s()
        token = [False]
        self._waiters.append(token)
        if isinstance(self._lock, RLock):
            st = self._lock._release_save()
        else:
            self._lock.release()
            st = None
        dl = None if timeout is None else s.clock + timeout
        try:
            ok = s.block(lambda: token[0], dl, "cond-wait")
        finally:
            if token in self._waiters:
                self._waiters.remove(token)
        if isinstance(self._lock, RLock):
            self._lock._acquire_restore(st)
        else:
            self._lock.acquire()
        return ok

    def wait_for(self, predicate, timeout=None):
        s = _s()
        end = None if timeout is None else s.clock + timeout
        result = predicate()
        while not result:
            if end is not None:
                left = end - s.clock
                if left <= 0:
                    break
                self.wait(left)
            else:
                self.wait(None)
            result = predicate()
        return result

    def notify(self, n=1):
        s = _s()
        for token in self._waiters[:n]:
            token[0] = True
        del self._waiters[:n]
        s.point("notify")

    def notify_all(self):
        self.notify(len(self._waiters))

    notifyAll = notify_all  # noqa: N815


class Event:
    def __init__(self):
        self._flag = False

    def is_set(self):
        return self._flag

    isSet = is_set  # noqa: N815

    def set(self):
        s = SCHED
        if s is not None and not s.ending:
            s.point("event-set")
        self._flag = True

    def clear(self):
        s = SCHED
        if s is not None and not s.ending:
            s.point("event-clear")
        self._flag = False

    def wait(self, timeout=None):
        s = _s()
        s.point("event-wait")
        if self._flag:
            return True
        dl = None if timeout is None else s.clock + timeout
        return s.block(lambda: self._flag, dl, "event-wait")


class Thread:
    def __init__(self, group=None, target=None, name=None, args=(), kwargs=None, *, daemon=None):
        s = _s()
        self._target = target
        self._args = args
        self._kwargs = kwargs or {}
        self._vt = VThread(s, self._run_wrapper, (), None, name, daemon)
        s.threads.append(self._vt)
        self._started = False

    def _run_wrapper(self):
        self.run()

    def run(self):
        if self._target is not None:
            self._target(*self._args, **self._kwargs)

    @property
    def name(self):
        return self._vt.name

    @name.setter
    def name(self, v):
        self._vt.name = v

    @property
    def daemon(self):
        return self._vt.daemon

    @daemon.setter
    def daemon(self, v):
        self._vt.daemon = bool(v)

    @property
    def ident(self):
        return self._vt.index if self._started else None

    def start(self):
        s = _s()
        s.point("thread-start")
        self._started = True
        s.start_thread(self._vt)

    def is_alive(self):
        return self._started and self._vt.state != DONE

    def join(self, timeout=None):
        s = _s()
        s.point("join")
        if self._vt.state == DONE:
            return
        if self._vt is s.current:
            raise RuntimeError("cannot join current thread")
        dl = None if timeout is None else s.clock + timeout
        s.block(lambda: self._vt.state == DONE, dl, f"join {self._vt.name}")


class Timer(Thread):
    def __init__(self, interval, function, args=None, kwargs=None):
        super().__init__(name="Timer")
        self.interval = interval
        self.function = function
        self.args = args if args is not None else []
        self.kwargs = kwargs if kwargs is not None else {}
        self._cancelled = False
        self._fired = False

    def cancel(self):
        self._cancelled = True

    def run(self):
        s = _s()
        s.block(lambda: self._cancelled, s.clock + self.interval, f"timer {self.interval}")
        if not self._cancelled:
            self._fired = True
            self.function(*self.args, **self.kwargs)


class _CurrentThreadProxy:
    def __init__(self, vt):
        self._vt = vt

    @property
    def name(self):
        return self._vt.name

    @property
    def ident(self):
        return self._vt.index

    daemon = True


class Empty(Exception):
    pass


class Full(Exception):
    pass


class Queue:
    def __init__(self, maxsize=0):
        self.maxsize = maxsize
        self._items = collections.deque()
        self.queue = self._items

    def qsize(self):
        return len(self._items)

    def empty(self):
        return not self._items

    def full(self):
        return 0 < self.maxsize <= len(self._items)

    def put(self, item, block=True, timeout=None):
        s = _s()
        s.point("q-put")
        if self.full():
            if not block:
                raise Full
            dl = None if timeout is None else s.clock + timeout
            if not s.block(lambda: not self.full(), dl, "q-put"):
                raise Full
        self._items.append(item)

    def put_nowait(self, item):
        self.put(item, False)

    def get(self, block=True, timeout=None):
        s = _s()
        s.point("q-get")
        if not self._items:
            if not block:
                raise Empty
            dl = None if timeout is None else s.clock + timeout
            if not s.block(lambda: len(self._items) > 0, dl, "q-get"):
                raise Empty
        return self._items.popleft()

    def get_nowait(self):
        return self.get(False)

    def task_done(self):
        pass


# ---------------------------------------------------------------------- module facades
class _Module:
    def __init__(self, name, **attrs):
        self.__name__ = name
        self.__dict__.update(attrs)


def _current_thread():
    t = cur_thread()
    if t is None:
        raise HarnessError("current_thread outside a virtual thread")
    return _CurrentThreadProxy(t)


def _sleep(d):
    s = _s()
    s.point("sleep")
    s.block(None, s.clock + max(0.0, d), f"sleep {d}")


TIME_BASE = 1_700_000_000.0

vthreading = _Module("threading", Thread=Thread, Event=Event, Lock=Lock, RLock=RLock, Condition=Condition, Timer=Timer,
                     current_thread=_current_thread, get_ident=lambda: cur_thread().index,
                     main_thread=lambda: None, TIMEOUT_MAX=float(2 ** 31))
vqueue = _Module("queue", Queue=Queue, Empty=Empty, Full=Full)
vtime = _Module("time", sleep=_sleep, time=lambda: TIME_BASE + _s().clock, monotonic=lambda: _s().clock,
                perf_counter=lambda: _s().clock)
vrandom = _Module("random", randint=lambda a, b: _s().randint(a, b))


# ====================================================================== line-level scheduling points
TOOL_ID = 3
_traced_codes = set()
_monitoring_on = False
_no_preempt = 0  # > 0 while the running thread is inside a region the scheduler must not interrupt (a real import lock is held)


def _on_line(code, line):
    s = SCHED
    if s is None or not s.line_points or s.ending or _no_preempt:
        return None
    t = s.current
    if t is None or t.ident != _thread.get_ident():
        return None
    s.point("line")
    return None


def _on_instruction(code, offset):
    s = SCHED
    if s is None or not s.line_points or s.ending:
        return None
    t = s.current
    if t is None or t.ident != _thread.get_ident():
        return None
    s.point("instr")
    return None


def _on_jump(code, src, dst):
    if dst >= src:
        return None
    s = SCHED
    if s is None or s.ending or _no_preempt:
        return None
    t = s.current
    if t is None or t.ident != _thread.get_ident():
        return None
    key = (code, src, dst)
    mark = (s.switches, s.time_advances)
    if t.last_back_jump == key and t.steps_mark == mark:
        t.back_jump_repeat += 1
    else:
        t.last_back_jump, t.steps_mark, t.back_jump_repeat = key, mark, 0
    if t.back_jump_repeat >= 2:
        # The same backward jump was taken repeatedly while no other thread ran: a spin-wait (or a plain
        # loop).  If somebody else can run now, let them (harmless for a plain loop).  Only after many
        # iterations do we let virtual time advance (a spin that waits for a timer), and only after many
        # more with nothing at all pending do we call it a livelock.
        enabled_now = False
        has_deadline = False
        for x in s.prio:
            if x is t:
                continue
            if x.enabled():
                enabled_now = True
                break
            if x.state == BLOCKED and x.deadline is not None and not getattr(x, "is_settle", False):
                has_deadline = True
        if enabled_now or (has_deadline and t.back_jump_repeat >= SPIN_TIME_THRESHOLD):
            s.spin_yields += 1
            s.yield_to_others(f"spin {code.co_name}")
            t.steps_mark = (s.switches, s.time_advances)
            if not enabled_now:
                t.back_jump_repeat = 0
        elif not has_deadline and t.back_jump_repeat >= SPIN_LIVELOCK_THRESHOLD:
            s._end("livelock", [(x.name, x.state, x.why) for x in s.threads if x.state != DONE] + [("spinning", t.name, code.co_name)])
            s._park_forever(t)
    return None


SPIN_TIME_THRESHOLD = 300
SPIN_LIVELOCK_THRESHOLD = 3000


def enable_monitoring():
    global _monitoring_on
    if _monitoring_on:
        return
    mon = sys.monitoring
    if mon.get_tool(TOOL_ID) is None:
        mon.use_tool_id(TOOL_ID, "verif-vrt")
    mon.register_callback(TOOL_ID, mon.events.LINE, _on_line)
    mon.register_callback(TOOL_ID, mon.events.JUMP, _on_jump)
    mon.register_callback(TOOL_ID, mon.events.INSTRUCTION, _on_instruction)
    _monitoring_on = True


def _code_objects(fn):
    fn = getattr(fn, "__func__", fn)
    fn = getattr(fn, "fget", fn) if isinstance(fn, property) else fn
    code = getattr(fn, "__code__", None)
    out = []
    if code is not None:
        stack = [code]
        while stack:
            c = stack.pop()
            out.append(c)
            stack.extend(k for k in c.co_consts if hasattr(k, "co_code"))
    return out


def trace_functions(fns, lines=True, jumps=True, instructions=False):
    """Make every source line (and backward jump) of the given functions a scheduling point.

    instructions=True: every bytecode instruction instead of every line (for a small shared structure whose
    single lines are themselves read-modify-write sequences)."""
    enable_monitoring()
    mon = sys.monitoring
    ev = 0
    if instructions:
        ev |= mon.events.INSTRUCTION
    elif lines:
        ev |= mon.events.LINE
    if jumps:
        ev |= mon.events.JUMP
    n = 0
    for fn in fns:
        for code in _code_objects(fn):
            cur = mon.get_local_events(TOOL_ID, code)
            if instructions:
                cur &= ~mon.events.LINE
            mon.set_local_events(TOOL_ID, code, cur | ev)
            _traced_codes.add(code)
            n += 1
    return n


def untrace_all():
    mon = sys.monitoring
    for code in list(_traced_codes):
        mon.set_local_events(TOOL_ID, code, 0)
    _traced_codes.clear()


def resolve(qualnames):
    """'secsgem.common.protocol:Protocol.get_next_system_counter' -> function objects; missing ones are reported."""
    import importlib  # noqa: PLC0415

    found, missing = [], []
    for q in qualnames:
        modname, _, path = q.partition(":")
        try:
            obj = importlib.import_module(modname)
            parts = path.split(".")
            for i, p in enumerate(parts):
                if p == "*":
                    for v in vars(obj).values():
                        if callable(v) or isinstance(v, (property, staticmethod, classmethod)):
                            found.append(v)
                    obj = None
                    break
                # name-mangled privates
                if p.startswith("__") and not p.endswith("__") and i > 0:
                    p = f"_{parts[i - 1]}{p}"
                obj = obj.__dict__[p] if isinstance(obj, type) and p in obj.__dict__ else getattr(obj, p)
            if obj is not None:
                found.append(obj)
        except (ImportError, AttributeError, KeyError):
            missing.append(q)
    return found, missing


def trace_spin_loops(module_names):
    """Backward-jump (spin-wait) detection for every function of the given modules, without making their lines
    scheduling points.  Without it a `while not flag: pass` loop in an untraced function would spin for ever,
    because no other virtual thread can run while it does."""
    import importlib  # noqa: PLC0415
    import inspect  # noqa: PLC0415

    fns = []
    for mn in module_names:
        try:
            mod = importlib.import_module(mn)
        except ImportError:
            continue
        for obj in vars(mod).values():
            if inspect.isclass(obj) and obj.__module__ == mn:
                for v in vars(obj).values():
                    if callable(v) or isinstance(v, (property, staticmethod, classmethod)):
                        fns.append(v)
            elif inspect.isfunction(obj) and obj.__module__ == mn:
                fns.append(obj)
    return trace_functions(fns, lines=False, jumps=True)


SPIN_MODULES = ["secsgem.common.tcp_connection", "secsgem.common.tcp_server_connection", "secsgem.common.tcp_client_connection",
                "secsgem.common.serial_connection", "secsgem.common.protocol_dispatcher", "secsgem.common.byte_queue",
                "secsgem.common.protocol", "secsgem.hsms.protocol", "secsgem.secsi.protocol", "secsgem.gem.handler"]
