"""A small in-memory kernel model for the real TcpConnection classes: sockets, select, and a virtual serial port.

It models the Linux answers secsgem can meet: listening sockets keyed by (addr, port) with SO_REUSEADDR
semantics, an accept queue, connected pairs with a receive buffer, non-blocking send returning an
explorer-chosen accepted count / EWOULDBLOCK / EPIPE, recv returning b"" after the peer closed, select
raising ValueError on a closed socket, shutdown() of a listening socket succeeding.  The environment
answers are choice points of kind "env" (faults) - option 0 is always the benign answer.
The conformance of these answers with real loopback sockets is checked by mc/vnet_conformance.py.
"""
from __future__ import annotations

import collections
import errno

from mc import vrt

AF_INET, SOCK_STREAM, SOL_SOCKET, SO_REUSEADDR, SO_KEEPALIVE, SHUT_RD, SHUT_WR, SHUT_RDWR = 2, 1, 1, 2, 9, 0, 1, 2
SO_LINGER = 13


class Kernel:
    def __init__(self):
        self.listeners = {}  # (addr, port) -> VSocket (library side) | PeerListener (harness side)
        self.time_wait = set()  # local (addr, port) of accepted connections this side closed first (FIN sent first, no RST)
        self.sockets = []
        self.peer_listeners = {}  # harness listening for connections made by the library
        self.send_menu = False  # offer short-write / EWOULDBLOCK / EPIPE choices on send
        self.select_menu = False  # offer "not writable yet" on select for write
        self.sndbuf = 1 << 30  # bytes the peer buffer accepts before send would block (when the peer does not read)
        self.log = []


def kernel():
    s = vrt.SCHED
    if s is None:
        raise vrt.HarnessError("virtual socket used outside an execution")
    k = getattr(s, "kernel", None)
    if k is None:
        k = s.kernel = Kernel()
    return k


class VSocket:
    def __init__(self, family=AF_INET, typ=SOCK_STREAM, proto=0):
        self.k = kernel()
        self.k.sockets.append(self)
        self.state = "new"
        self.addr = None
        self.blocking = True
        self.rx = bytearray()
        self.peer = None
        self.peer_closed = False
        self.accept_queue = collections.deque()
        self.reuse = False
        self.sent_total = 0
        self.is_peer = False
        self.abortive_close = False
        self.was_reset = False

    # ---- options
    def setsockopt(self, level, opt, value):
        self._open()
        if level == SOL_SOCKET and opt == SO_REUSEADDR:
            self.reuse = bool(value)
        if level == SOL_SOCKET and opt == SO_LINGER:
            # struct linger {int l_onoff; int l_linger}: on with zero time-out = abortive close (RST), queued data is discarded
            import struct  # noqa: PLC0415

            try:
                onoff, secs = struct.unpack("ii", bytes(value))
            except (struct.error, TypeError):
                onoff, secs = 0, 0
            self.abortive_close = bool(onoff) and secs == 0

    def setblocking(self, flag):
        self._open()
        self.blocking = bool(flag)

    def settimeout(self, t):
        self.blocking = t is None

    def fileno(self):
        return -1 if self.state == "closed" else 100 + self.k.sockets.index(self)

    def _open(self):
        if self.state == "closed":
            raise OSError(errno.EBADF, "Bad file descriptor")

    # ---- server side
    def bind(self, addr):
        self._open()
        vrt.SCHED.point("bind")
        cur = self.k.listeners.get(tuple(addr))
        if cur is not None and cur.state in ("bound", "listening"):
            raise OSError(errno.EADDRINUSE, "Address already in use")
        if tuple(addr) in self.k.time_wait and not self.reuse:
            # Linux: a connection of this port in TIME_WAIT blocks bind() unless SO_REUSEADDR was set on the socket *before* bind
            raise OSError(errno.EADDRINUSE, "Address already in use")
        self.addr = tuple(addr)
        self.state = "bound"
        self.k.listeners[self.addr] = self

    def listen(self, backlog=1):
        self._open()
        if self.state not in ("bound", "listening"):
            raise OSError(errno.EINVAL, "listen on unbound socket")
        self.state = "listening"

    def accept(self):
        self._open()
        s = vrt.SCHED
        s.point("accept")
        if self.state != "listening":
            raise OSError(errno.EINVAL, "Invalid argument")
        if not self.accept_queue:
            if not self.blocking:
                raise BlockingIOError(errno.EWOULDBLOCK, "Resource temporarily unavailable")
            s.block(lambda: bool(self.accept_queue) or self.state == "closed", None, "accept")
            if self.state == "closed":
                raise OSError(errno.EBADF, "Bad file descriptor")
        conn = self.accept_queue.popleft()
        return conn, ("127.0.0.1", 40000 + len(self.k.sockets))

    # ---- client side
    def connect(self, addr):
        self._open()
        s = vrt.SCHED
        s.point("connect")
        lst = self.k.peer_listeners.get(tuple(addr)) or self.k.listeners.get(tuple(addr))
        if lst is None or lst.state != "listening":
            raise ConnectionRefusedError(errno.ECONNREFUSED, "Connection refused")
        other = VSocket()
        other.is_peer = getattr(lst, "is_peer", False)
        other.state = self.state = "connected"
        other.peer, self.peer = self, other
        other.local_addr = tuple(addr)
        lst.accept_queue.append(other)

    # ---- data
    def send(self, data, flags=0):
        self._open()
        s = vrt.SCHED
        s.point("send")
        if self.state != "connected":
            raise OSError(errno.ENOTCONN, "Transport endpoint is not connected")
        data = bytes(data)
        peer = self.peer
        if peer is None or peer.state == "closed":
            raise BrokenPipeError(errno.EPIPE, "Broken pipe")
        n = len(data)
        room = max(0, self.k.sndbuf - len(peer.rx))
        if room == 0:
            if self.blocking:
                s.block(lambda: self.k.sndbuf - len(peer.rx) > 0 or peer.state == "closed", None, "send-buffer-full")
                if peer.state == "closed":
                    raise BrokenPipeError(errno.EPIPE, "Broken pipe")
                room = self.k.sndbuf - len(peer.rx)
            else:
                raise BlockingIOError(errno.EWOULDBLOCK, "Resource temporarily unavailable")
        accept = min(n, room)
        if self.k.send_menu and not self.is_peer and n > 0:
            # benign answer first: everything accepted.  Deviations: short writes, would-block, broken pipe.
            opts = ["all"]
            if n > 1:
                opts += ["one", "half", "all-but-one"]
            opts += ["wouldblock", "epipe"]
            if getattr(self.k, "fin_menu", False) and n > 1 and not self.peer_closed:
                # short write while the peer half-closes (FIN arrives; the peer keeps reading)
                opts += ["one+peer-fin"]
            only = getattr(self.k, "send_opts", None)
            if only:
                opts = [x for x in opts if x in only]  # a scenario may offer a smaller menu (stated in its evidence)
            c = s.choose(len(opts), "env") if len(opts) > 1 else 0
            o = opts[c]
            if o == "one+peer-fin":
                accept = 1
                self.peer_closed = True
            if o == "one":
                accept = 1
            elif o == "half":
                accept = max(1, n // 2)
            elif o == "all-but-one":
                accept = n - 1
            elif o == "wouldblock":
                raise BlockingIOError(errno.EWOULDBLOCK, "Resource temporarily unavailable")
            elif o == "epipe":
                raise BrokenPipeError(errno.EPIPE, "Broken pipe")
        peer.rx += data[:accept]
        self.sent_total += accept
        return accept

    def sendall(self, data, flags=0):
        data = bytes(data)
        while data:
            n = self.send(data)
            data = data[n:]

    def recv(self, n, flags=0):
        self._open()
        s = vrt.SCHED
        s.point("recv")
        if self.state != "connected":
            raise OSError(errno.ENOTCONN, "Transport endpoint is not connected")
        if not self.rx:
            if self.peer_closed:
                return b""
            if not self.blocking:
                raise BlockingIOError(errno.EWOULDBLOCK, "Resource temporarily unavailable")
            s.block(lambda: bool(self.rx) or self.peer_closed or self.state == "closed", None, "recv")
            if self.state == "closed":
                raise OSError(errno.EBADF, "Bad file descriptor")
            if not self.rx:
                return b""
        out = bytes(self.rx[:n])
        del self.rx[:n]
        return out

    def shutdown(self, how):
        self._open()
        if self.state == "listening":
            return  # Linux accepts shutdown() on a listening socket
        if self.state != "connected":
            raise OSError(errno.ENOTCONN, "Transport endpoint is not connected")
        if self.peer is not None and how in (SHUT_WR, SHUT_RDWR):
            self.peer.peer_closed = True

    def close(self):
        s = vrt.SCHED
        if s is not None and not s.ending:
            s.point("close")
        if self.state == "closed":
            return
        was = self.state
        self.state = "closed"
        if was in ("bound", "listening") and self.k.listeners.get(self.addr) is self:
            del self.k.listeners[self.addr]
        if was in ("bound", "listening") and self.k.peer_listeners.get(self.addr) is self:
            del self.k.peer_listeners[self.addr]
        if self.peer is not None:
            if was == "connected" and not self.peer_closed and not self.abortive_close and getattr(self, "local_addr", None) is not None:
                self.k.time_wait.add(self.local_addr)  # active close of an accepted connection: its local port is the listening port
            self.peer.peer_closed = True
            if self.abortive_close and was == "connected":
                # RST: what already reached the peer's receive queue stays readable (checked on real loopback), what still sits in this
                # side's send buffer - everything beyond the peer's receive buffer of k.rcvbuf unread bytes - is discarded
                del self.peer.rx[getattr(self.k, "rcvbuf", 1 << 30):]
                self.peer.was_reset = True

    # ---- readiness (used by select)
    def readable(self):
        if self.state == "listening":
            return bool(self.accept_queue)
        if self.state == "connected":
            return bool(self.rx) or self.peer_closed
        return False

    def writable(self):
        return self.state == "connected"


def vselect(rlist, wlist, xlist, timeout=None):
    s = vrt.SCHED
    s.point("select")
    k = kernel()
    for sock in list(rlist) + list(wlist) + list(xlist):
        if sock.state == "closed":
            raise ValueError("file descriptor cannot be a negative integer (-1)")

    not_yet = False
    if wlist and k.select_menu:
        not_yet = s.choose(2, "env") == 1  # deviation: the socket is reported not writable this time (full send buffer)

    def ready():
        r = [x for x in rlist if x.readable()]
        w = [] if not_yet else [x for x in wlist if x.writable()]
        return r, w

    def any_ready():
        if any(x.state == "closed" for x in list(rlist) + list(wlist)):
            return True
        r, w = ready()
        return bool(r or w)

    if not any_ready():
        dl = None if timeout is None else s.clock + timeout
        s.block(any_ready, dl, "select")
    for sock in list(rlist) + list(wlist) + list(xlist):
        if sock.state == "closed":
            # closed by another thread while blocked in select: Linux keeps waiting until the timeout
            return [], [], []
    r, w = ready()
    return r, w, []


class _SocketModule:
    AF_INET, SOCK_STREAM, SOL_SOCKET, SO_REUSEADDR, SO_KEEPALIVE = AF_INET, SOCK_STREAM, SOL_SOCKET, SO_REUSEADDR, SO_KEEPALIVE
    SO_LINGER = SO_LINGER
    SHUT_RD, SHUT_WR, SHUT_RDWR = SHUT_RD, SHUT_WR, SHUT_RDWR
    socket = VSocket
    error = OSError
    timeout = TimeoutError
    __name__ = "socket"


class _SelectModule:
    select = staticmethod(vselect)
    error = OSError
    __name__ = "select"


vsocket = _SocketModule()
vselect_mod = _SelectModule()
# loader expects these names
vselect_fn = vselect
vselect = _SelectModule()  # noqa: F811 - module facade named like the stdlib module


# ------------------------------------------------------------------------------------------ harness side helpers
def peer_listen(addr, port):
    """Harness: listen for connections made by the library (TcpClientConnection)."""
    k = kernel()
    lst = VSocket()
    lst.is_peer = True
    lst.addr = (addr, port)
    lst.state = "listening"
    k.peer_listeners[(addr, port)] = lst
    return lst


def peer_connect(addr, port):
    """Harness: connect to a listening socket of the library; returns the harness end or None if refused."""
    k = kernel()
    lst = k.listeners.get((addr, port))
    if lst is None or lst.state != "listening":
        return None
    mine = VSocket()
    mine.is_peer = True
    other = VSocket()
    mine.state = other.state = "connected"
    mine.peer, other.peer = other, mine
    other.local_addr = (addr, port)
    lst.accept_queue.append(other)
    return mine


# ------------------------------------------------------------------------------------------ serial port
class VSerial:
    """pyserial's Serial over two byte pipes; the harness owns the other end (line.a / line.b)."""

    lines = None

    def __init__(self, port=None, baudrate=9600, timeout=None, **kw):
        s = vrt.SCHED
        reg = getattr(s, "serial_lines", None)
        if reg is None:
            reg = s.serial_lines = {}
        self.port = port
        self.timeout = timeout
        self.end = reg.setdefault(port, SerialEnd(port))
        self.end.open = True
        self.is_open = True

    @property
    def in_waiting(self):
        return len(self.end.rx)

    def read(self, size=1):
        s = vrt.SCHED
        s.point("serial-read")
        end = self.end
        if not end.rx:
            dl = None if self.timeout is None else s.clock + self.timeout
            s.block(lambda: bool(end.rx) or not self.is_open, dl, "serial-read")
        n = size
        if end.chunk_menu and len(end.rx) > 1:
            # deviation: the driver hands over fewer bytes than are waiting
            c = s.choose(3, "cut")
            if c == 1:
                n = 1
            elif c == 2:
                n = max(1, len(end.rx) // 2)
        out = bytes(end.rx[:n])
        del end.rx[:n]
        return out

    def write(self, data):
        s = vrt.SCHED
        s.point("serial-write")
        data = bytes(data)
        self.end.tx_log.append((s.clock, data))
        if self.end.other is not None:
            self.end.other.rx += self.end.transform(data)
        return len(data)

    def close(self):
        self.is_open = False
        self.end.open = False

    def flush(self):
        pass


class SerialEnd:
    def __init__(self, name):
        self.name = name
        self.rx = bytearray()
        self.tx_log = []
        self.other = None
        self.open = False
        self.chunk_menu = False
        self.transform = lambda d: d


def serial_link(port_a, port_b):
    """Connect two virtual serial ports back to back; returns (end_a, end_b)."""
    s = vrt.SCHED
    reg = getattr(s, "serial_lines", None)
    if reg is None:
        reg = s.serial_lines = {}
    a = reg.setdefault(port_a, SerialEnd(port_a))
    b = reg.setdefault(port_b, SerialEnd(port_b))
    a.other, b.other = b, a
    return a, b


class _SerialModule:
    Serial = VSerial
    SerialException = OSError
    __name__ = "serial"


vserial = _SerialModule()
