"""Independent reader of the documented SFDL grammar and naming rules (docs/firststeps/sfdl.md).

tree:  ("item", NAME) | ("list", name_or_None, [tree, ...])
shape: ("item", NAME) | ("array", shape) | ("record", [(key, shape), ...])
"""
from __future__ import annotations


def render(tree, style=0, depth=0):
    """Text of a definition tree in one of 4 whitespace styles."""
    if style == 0:  # documented multi-line, 4-space indent
        ind = "    " * depth
        if tree[0] == "item":
            return f"{ind}< {tree[1]} >"
        head = f"{ind}< L" + (f" {tree[1]}" if tree[1] else "")
        inner = "\n".join(render(ch, style, depth + 1) for ch in tree[2])
        return head + ("\n" + inner if inner else "") + f"\n{ind}>"
    if style == 1:  # compact, single line, minimal blanks
        if tree[0] == "item":
            return f"<{tree[1]}>"
        return "<L" + (f" {tree[1]}" if tree[1] else "") + "".join(render(ch, style) for ch in tree[2]) + ">"
    if style == 2:  # tabs and CRLF
        ind = "\t" * depth
        if tree[0] == "item":
            return f"{ind}<\t{tree[1]}\t>"
        head = f"{ind}<\tL" + (f"\t{tree[1]}" if tree[1] else "")
        inner = "\r\n".join(render(ch, style, depth + 1) for ch in tree[2])
        return head + ("\r\n" + inner if inner else "") + f"\r\n{ind}>"
    # style 3: everything on one line with wide gaps, leading and trailing blank lines
    if tree[0] == "item":
        return f"<   {tree[1]}   >"
    body = "   ".join(render(ch, style) for ch in tree[2])
    txt = "<   L" + (f"   {tree[1]}" if tree[1] else "") + ("   " + body if body else "") + "   >"
    return ("\n\n  " + txt + "  \n\n") if depth == 0 else txt


def key_in_record(tree):
    if tree[0] == "item":
        return tree[1]
    _, name, children = tree
    if name:
        return name
    if len(children) == 1 and children[0][0] == "item":
        return children[0][1]
    return "DATA"


def shape(tree):
    if tree[0] == "item":
        return ("item", tree[1])
    _, _name, children = tree
    if len(children) == 1:
        return ("array", shape(children[0]))
    return ("record", [(key_in_record(ch), shape(ch)) for ch in children])


def keys_distinct(tree):
    if tree[0] == "item":
        return True
    _, _n, children = tree
    if len(children) > 1:
        ks = [key_in_record(ch) for ch in children]
        if len(set(ks)) != len(ks):
            return False
    return all(keys_distinct(ch) for ch in children)


def tokens(tree):
    """Flat token list of the definition (used for mutations)."""
    if tree[0] == "item":
        return ["<", tree[1], ">"]
    out = ["<", "L"] + ([tree[1]] if tree[1] else [])
    for ch in tree[2]:
        out += tokens(ch)
    return out + [">"]
