"""Independent SEMI E5 (SECS-II) item codec.  Never imports secsgem.

A node is (code, payload):
  ("L", [node, ...])          list
  ("B", bytes)                binary
  ("BOOLEAN", [bool, ...])
  ("A", bytes) / ("J", bytes) text, kept as the raw bytes on the wire
  ("I1".."U8", [int, ...])
  ("F4"/"F8", [float, ...])   F4 floats are compared through their binary32 bit pattern
"""
from __future__ import annotations

import struct

FC = {
    "L": 0o00, "B": 0o10, "BOOLEAN": 0o11, "A": 0o20, "J": 0o21,
    "I8": 0o30, "I1": 0o31, "I2": 0o32, "I4": 0o34,
    "F8": 0o40, "F4": 0o44,
    "U8": 0o50, "U1": 0o51, "U2": 0o52, "U4": 0o54,
}
CODE = {v: k for k, v in FC.items()}
INT_W = {"I1": (1, True), "I2": (2, True), "I4": (4, True), "I8": (8, True),
         "U1": (1, False), "U2": (2, False), "U4": (4, False), "U8": (8, False)}
ELEM = {"B": 1, "BOOLEAN": 1, "A": 1, "J": 1, "F4": 4, "F8": 8, **{k: w for k, (w, _) in INT_W.items()}}
FLT_MAX = struct.unpack(">f", bytes.fromhex("7f7fffff"))[0]
DBL_MAX = struct.unpack(">d", bytes.fromhex("7fefffffffffffff"))[0]


def int_range(code):
    w, signed = INT_W[code]
    if signed:
        return -(1 << (8 * w - 1)), (1 << (8 * w - 1)) - 1
    return 0, (1 << (8 * w)) - 1


def min_len_bytes(n: int) -> int:
    if n > 0xFFFFFF:
        raise ValueError("length does not fit three length bytes")
    if n > 0xFFFF:
        return 3
    if n > 0xFF:
        return 2
    return 1


def header(code: str, length: int, nlb: int | None = None) -> bytes:
    if nlb is None:
        nlb = min_len_bytes(length)
    if length >= (1 << (8 * nlb)):
        raise ValueError("length does not fit")
    return bytes([(FC[code] << 2) | nlb]) + length.to_bytes(nlb, "big")


def payload(node) -> bytes:
    code, val = node
    if code in ("B", "A", "J"):
        return bytes(val)
    if code == "BOOLEAN":
        return bytes(1 if b else 0 for b in val)
    if code in INT_W:
        w, signed = INT_W[code]
        return b"".join(int(v).to_bytes(w, "big", signed=signed) for v in val)
    if code == "F4":
        return b"".join(struct.pack(">f", v) for v in val)
    if code == "F8":
        return b"".join(struct.pack(">d", v) for v in val)
    raise ValueError(code)


def enc(node, lenbytes=None) -> bytes:
    """Canonical encoding (minimal length bytes); lenbytes(node, minimal) -> nlb picks non-canonical ones."""
    code, val = node
    if code == "L":
        body = b"".join(enc(ch, lenbytes) for ch in val)
        n = len(val)
    else:
        body = payload(node)
        n = len(body)
    nlb = min_len_bytes(n)
    if lenbytes is not None:
        nlb = lenbytes(node, nlb)
    return header(code, n, nlb) + body


def dec(data: bytes, pos: int = 0):
    """Decode one item at pos -> (node, new_pos).  Raises ValueError on anything that is not valid E5."""
    if pos >= len(data):
        raise ValueError("no data")
    fb = data[pos]
    fc, nlb = fb >> 2, fb & 3
    if fc not in CODE:
        raise ValueError(f"unknown format code {fc:o}")
    if nlb == 0:
        raise ValueError("zero length bytes")
    if pos + 1 + nlb > len(data):
        raise ValueError("truncated header")
    n = int.from_bytes(data[pos + 1:pos + 1 + nlb], "big")
    pos += 1 + nlb
    code = CODE[fc]
    if code == "L":
        items = []
        for _ in range(n):
            node, pos = dec(data, pos)
            items.append(node)
        return ("L", items), pos
    if pos + n > len(data):
        raise ValueError("truncated payload")
    raw = data[pos:pos + n]
    pos += n
    if code in ("B", "A", "J"):
        return (code, bytes(raw)), pos
    if code == "BOOLEAN":
        return (code, [b != 0 for b in raw]), pos
    w = ELEM[code]
    if n % w:
        raise ValueError("length not a multiple of the element size")
    if code in INT_W:
        _, signed = INT_W[code]
        return (code, [int.from_bytes(raw[i:i + w], "big", signed=signed) for i in range(0, n, w)]), pos
    fmt = ">f" if code == "F4" else ">d"
    return (code, [struct.unpack(fmt, raw[i:i + w])[0] for i in range(0, n, w)]), pos


# ---------------------------------------------------------------- text denotation (JIS X 0201 / latin-1)
def jis8_to_str(b: bytes) -> str:
    out = []
    for x in b:
        if x == 0x5C:
            out.append("¥")
        elif x == 0x7E:
            out.append("‾")
        elif 0xA1 <= x <= 0xDF:
            out.append(chr(x + 0xFEC0))
        else:
            out.append(chr(x))
    return "".join(out)


def latin1_to_str(b: bytes) -> str:
    return "".join(chr(x) for x in b)


# ---------------------------------------------------------------- "python value" conventions of the library
def py_value(node):
    """The value the library's *variables* API documents for get(): scalar collapse for 1-element
    numeric/boolean arrays, int for a 1-byte binary, str for text, list for lists."""
    code, val = node
    if code == "L":
        return [py_value(ch) for ch in val]
    if code == "B":
        return val[0] if len(val) == 1 else bytes(val)
    if code == "A":
        return latin1_to_str(val)
    if code == "J":
        return jis8_to_str(val)
    vals = list(val)
    return vals[0] if len(vals) == 1 else vals


def same_value(code, a, b) -> bool:
    """Compare python values of one leaf type; floats by exact binary value (F4 through binary32)."""
    if code in ("F4", "F8"):
        la = a if isinstance(a, list) else [a]
        lb = b if isinstance(b, list) else [b]
        if isinstance(a, list) != isinstance(b, list) or len(la) != len(lb):
            return False
        fmt = ">f" if code == "F4" else ">d"
        try:
            return all(struct.pack(fmt, x) == struct.pack(fmt, y) for x, y in zip(la, lb))
        except (struct.error, OverflowError, TypeError):
            return False
    if isinstance(a, (str, bytes)) or isinstance(b, (str, bytes)):
        return type(a) is type(b) and a == b
    if isinstance(a, list) != isinstance(b, list):
        return False
    return a == b
