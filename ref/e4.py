"""Independent SEMI E4 (SECS-I) block codec: header bit layout, 16-bit additive checksum, splitting, reassembly."""
from __future__ import annotations

ENQ, EOT, ACK, NAK = 0x05, 0x04, 0x06, 0x15
MAX_DATA = 244


def header(device_id, r, w, stream, function, block, e, system):
    return bytes([
        ((0x80 if r else 0) | ((device_id >> 8) & 0x7F)), device_id & 0xFF,
        ((0x80 if w else 0) | (stream & 0x7F)), function & 0xFF,
        ((0x80 if e else 0) | ((block >> 8) & 0x7F)), block & 0xFF,
    ]) + (system & 0xFFFFFFFF).to_bytes(4, "big")


def block(hdr: bytes, data: bytes) -> bytes:
    assert len(hdr) == 10 and len(data) <= MAX_DATA
    body = hdr + bytes(data)
    cks = sum(body) & 0xFFFF
    return bytes([len(body)]) + body + cks.to_bytes(2, "big")


def split(device_id, r, w, stream, function, system, body: bytes):
    """Encoded blocks of a message: <= 244 data bytes each, numbered 1..n, E-bit on the last only."""
    chunks = [body[i:i + MAX_DATA] for i in range(0, len(body), MAX_DATA)] or [b""]
    out = []
    for i, ch in enumerate(chunks):
        out.append(block(header(device_id, r, w, stream, function, i + 1, i == len(chunks) - 1, system), ch))
    return out


def parse_block(raw: bytes):
    """-> dict of fields or None if length / checksum do not fit."""
    if len(raw) < 13 or raw[0] != len(raw) - 3 or raw[0] < 10:
        return None
    body = raw[1:-2]
    if (sum(body) & 0xFFFF) != int.from_bytes(raw[-2:], "big"):
        return None
    h = body[:10]
    return {"device_id": ((h[0] & 0x7F) << 8) | h[1], "r": bool(h[0] & 0x80), "w": bool(h[2] & 0x80), "stream": h[2] & 0x7F,
            "function": h[3], "e": bool(h[4] & 0x80), "block": ((h[4] & 0x7F) << 8) | h[5], "system": int.from_bytes(h[6:10], "big"),
            "data": bytes(body[10:])}
