"""Independent SEMI E37 (HSMS) frame codec and session reference model.  Never imports secsgem."""
from __future__ import annotations

DATA, SELECT_REQ, SELECT_RSP, DESELECT_REQ, DESELECT_RSP, LINKTEST_REQ, LINKTEST_RSP, REJECT_REQ, SEPARATE_REQ = 0, 1, 2, 3, 4, 5, 6, 7, 9
STYPE_NAMES = {0: "Data", 1: "Select.req", 2: "Select.rsp", 3: "Deselect.req", 4: "Deselect.rsp", 5: "Linktest.req",
               6: "Linktest.rsp", 7: "Reject.req", 9: "Separate.req"}


def frame(session=0xFFFF, w=False, stream=0, function=0, ptype=0, stype=0, system=0, body=b""):
    """4-byte length, then 10-byte header: session id, W|stream, function, PType, SType, system bytes; then body."""
    hdr = bytes([(session >> 8) & 0xFF, session & 0xFF, ((0x80 if w else 0) | (stream & 0x7F)), function & 0xFF, ptype & 0xFF,
                 stype & 0xFF]) + (system & 0xFFFFFFFF).to_bytes(4, "big")
    return (len(hdr) + len(body)).to_bytes(4, "big") + hdr + bytes(body)


def control(stype, system, status=0, session=0xFFFF, rejected_stype=0):
    if stype == REJECT_REQ:
        return frame(session, False, rejected_stype, status, 0, stype, system)
    return frame(session, False, 0, status, 0, stype, system)


def data(stream, function, w, system, body=b"", session=0):
    return frame(session, w, stream, function, 0, DATA, system, body)


def parse(buf: bytes):
    """Split a byte stream into frames -> (list of dict, remaining bytes)."""
    out = []
    pos = 0
    while len(buf) - pos >= 4:
        n = int.from_bytes(buf[pos:pos + 4], "big")
        if n < 10 or len(buf) - pos - 4 < n:
            break
        h = buf[pos + 4:pos + 14]
        out.append({
            "session": (h[0] << 8) | h[1], "w": bool(h[2] & 0x80), "stream": h[2] & 0x7F, "function": h[3], "ptype": h[4],
            "stype": h[5], "system": int.from_bytes(h[6:10], "big"), "body": bytes(buf[pos + 14:pos + 4 + n]), "header": bytes(h),
        })
        pos += 4 + n
    return out, bytes(buf[pos:])


def brief(f):
    if f["stype"] == 0:
        return f"S{f['stream']}F{f['function']}{'W' if f['w'] else ''}#{f['system']}"
    extra = f"({f['function']})" if f["stype"] in (2, 4, 7) else ""
    return f"{STYPE_NAMES.get(f['stype'], f['stype'])}{extra}#{f['system']}"
