"""Independent SML recogniser used only to decide when the library MUST reject a text:
a missing closing bracket of the first item (or of any nested item of it) or an unknown type name."""
from __future__ import annotations

TYPES = {"L", "B", "BOOLEAN", "A", "J", "I1", "I2", "I4", "I8", "U1", "U2", "U4", "U8", "F4", "F8"}


def tokenize(text):
    """Whitespace separated tokens; < > [ ] are tokens of their own; "..." and '...' are single tokens."""
    out, cur, delim = [], "", ""
    for ch in text:
        if delim:
            cur += ch
            if ch == delim:
                out.append(cur)
                cur, delim = "", ""
            continue
        if ch in " \t\n\r":
            if cur:
                out.append(cur)
                cur = ""
        elif ch in "<>[]":
            if cur:
                out.append(cur)
                cur = ""
            out.append(ch)
        else:
            if ch in "'\"" :
                delim = ch
            cur += ch
    if cur:
        out.append(cur)
    return out, bool(delim)


def must_reject(tokens):
    """(True, reason) when no correct parser may return an item for this token list."""
    pos = 0

    def item():
        nonlocal pos
        if pos >= len(tokens):
            return "eof-before-item"
        if tokens[pos] != "<":
            return "no-open-bracket"
        pos += 1
        if pos >= len(tokens):
            return "missing-closing-bracket"
        typ = tokens[pos].upper()
        pos += 1
        if typ not in TYPES:
            return "unknown-type"
        if typ == "L":
            if pos < len(tokens) and tokens[pos] == "[":
                pos += 3 if pos + 2 < len(tokens) else len(tokens)
            while True:
                if pos >= len(tokens):
                    return "missing-closing-bracket"
                if tokens[pos] == ">":
                    pos += 1
                    return None
                if tokens[pos] == "<":
                    r = item()
                    if r:
                        return r
                else:
                    return None  # junk inside a list: the library may do what it wants
        while True:
            if pos >= len(tokens):
                return "missing-closing-bracket"
            if tokens[pos] == ">":
                pos += 1
                return None
            if tokens[pos] == "<":
                return None  # junk
            pos += 1

    reason = item()
    if reason in ("missing-closing-bracket", "unknown-type"):
        return True, reason
    return False, reason
